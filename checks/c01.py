"""C01 - content-addressed round trip on every write path."""
import random

from vlib import roundtrip

PROPERTY = 'C01'
LEVEL = 'exploration'
RULE = ('grid: size class (0, 1, 2, 100, 4096, 64 KiB-1/0/+1, 128 KiB-1/0/+1, 512 KiB-1/0/+1, 1 MiB+1) x content kind (zeros, random, text, '
        'compressible-head/incompressible-tail) x 17 write paths (add_object; add_streamed_object from BytesIO / a dribbling stream / a real '
        'file; add_objects_to_pack +/- compress, no_holes with and without read_twice, batch of one and of many with neighbours and an '
        'in-batch duplicate; add_streamed_objects_to_pack from BytesIO / LazyOpener / files / dribbling streams; add_streamed_object_to_pack '
        'with callback) with random hash_type/loose_prefix_len/zlib level/pack_size_target, plus a sweep write path x hash x prefix x level '
        'x target; the returned key is compared with hashlib, and get_object_content, get_objects_content, chunked get_object_stream (chunk '
        'sizes 1..512 KiB+1, -1), get_objects_stream_and_meta, meta.size (each also through the full-scan lookup strategy on a second handle) and the raw reader with the stored bytes, again after pack (every '
        'mode) / clean / repack (every mode) / reopen. Distinct = sub-case digest; all non-trivial.')
ASSUMPTIONS = ['object sizes <= 1 MiB + 1 (multi-MiB sizes are exercised by C18\'s streaming probes)', 'quick samples the configuration sweep at 50%']
TECHNIQUE = 'runtime monitoring: grid of generated inputs x write paths x configurations with hashlib and byte-equality oracles on every read path'


def run(ctx):
    for c in ('writes', 'read-path-evaluations', 'chunked-reads', 'then:pack', 'then:repack', 'path:streams:lazy', 'path:one:callback', 'full-scan-strategy-reads'):
        ctx.require(c)
    rnd = random.Random(f'c01-{ctx.seed}')
    subs = roundtrip.gen_subcases(rnd, ctx.tier)
    if not ctx.quick:
        for extra in range(3):
            subs += roundtrip.gen_subcases(random.Random(f'c01-{ctx.seed}-{extra}'), 'thorough')
    rnd.shuffle(subs)
    per = 40
    ctx.map(roundtrip.run_batch, [{'seed': ctx.seed * 100003 + i, 'subcases': subs[i:i + per]} for i in range(0, len(subs), per)])
    ctx.extra['grid_cases'] = len(subs)


def replay(ctx, rep):
    ctx.map(roundtrip.run_batch, [{'seed': 0, 'subcases': [rep['replay']['subcase']]}])
