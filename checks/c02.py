"""C02 - any history of operations is equivalent to a key->bytes map."""
from vlib import histories

PROPERTY = 'C02'
LEVEL = 'exploration'
RULE = ('seeded random API histories (all op kinds and parameter combinations, recurring contents, random container '
        'configuration); after every step every public view of the acting handle, and every 4th step of a fresh '
        'handle, is compared with a dict model. A case is distinct by (configuration, sequence of op kinds+flags) and '
        'non-trivial when it has >= 3 op kinds.')
ASSUMPTIONS = ['absent keys probed are well-formed digests', 'object sizes <= 1.3 MiB',
               'one live handle plus fresh observers (multi-handle histories are C08)']
MONITORS = ['views', 'fresh']


def cases(ctx):
    n = ctx.pick(220, 3000)
    out = [{'prop': PROPERTY, 'seed': ctx.seed * 1000003 + i, 'monitors': MONITORS, 'steps': (8, 40)} for i in range(n)]
    nlong = ctx.pick(4, 30)
    for i in range(nlong):  # long histories with dozens of packs
        out.append({'prop': PROPERTY, 'seed': ctx.seed * 1000003 + 500000 + i, 'monitors': MONITORS,
                    'steps': (120, 200), 'pack_targets': [50, 500], 'gen': {'big_p': 0.0, 'chunk_p': 0.01}})
    return out


def run(ctx):
    ctx.require('view-checks')
    ctx.require('fresh-handle-checks')
    ctx.require('refused-init:exists')
    ctx.require('refused-init:hash_type')
    ctx.map(histories.run_history, cases(ctx))


def replay(ctx, rep):
    r = rep['replay']
    ctx.map(histories.run_history, [{'prop': PROPERTY, 'seed': r.get('case_seed', 0), 'cfg': r['cfg'], 'ops': r['ops'],
                                     'monitors': MONITORS}])
