"""C03 - index and pack files stay mutually consistent and self-describing."""
from vlib import histories

PROPERTY = 'C03'
LEVEL = 'exploration'
RULE = ('the histories of C02 (seeded random API histories, all op kinds/parameters, random configuration); after every '
        'step the on-disk state is read with sqlite3 + byte slices + zlib only: every row inside an existing pack, no two '
        'non-empty ranges of a pack overlapping, no key indexed twice, the range (inflated exactly, no unused bytes) hashes to '
        'its key and has the recorded size, length==size when uncompressed, every loose file named by its digest, and every '
        'model key recoverable raw; at the end of every history (thorough: also every 6th step) the bash recovery script extracted from docs/pages/design.md is run on '
        'sampled packed objects. Distinct by (configuration, op kinds+flags); non-trivial with >= 3 op kinds.')
ASSUMPTIONS = ['zlib-flate (qpdf, not installed) in the documented script is replaced by a 2-line python zlib filter',
               'the sqlite3 shell is taken from PATH or well-known locations; if the image has none, a stand-in on Python\'s sqlite3 module prints the row (counted separately)',
               'object sizes <= 1.3 MiB']
MONITORS = ['raw', 'recovery']
TECHNIQUE = 'runtime monitoring: library-independent raw reader (sqlite3+slice+zlib) and the documented recovery script after every step of generated histories'


def cases(ctx):
    n = ctx.pick(260, 3000)
    out = [{'prop': PROPERTY, 'seed': ctx.seed * 1000003 + i, 'monitors': MONITORS, 'steps': (8, 40),
            'recovery_every': ctx.pick(0, 6)} for i in range(n)]
    for i in range(ctx.pick(2, 30)):
        out.append({'prop': PROPERTY, 'seed': ctx.seed * 1000003 + 500000 + i, 'monitors': MONITORS,
                    'steps': (120, 200), 'pack_targets': [50, 500], 'gen': {'big_p': 0.0, 'chunk_p': 0.01}})
    return out


def run(ctx):
    for counter in ('raw-checks', 'raw-rows-checked', 'raw-loose-checked', 'recovery-script-runs',
                    'recovery-script-runs-compressed'):
        ctx.require(counter)
    ctx.map(histories.run_history, cases(ctx))


def replay(ctx, rep):
    r = rep['replay']
    ctx.map(histories.run_history, [{'prop': PROPERTY, 'seed': r.get('case_seed', 0), 'cfg': r['cfg'], 'ops': r['ops'],
                                     'monitors': MONITORS}])
