"""C04 - readers and loose writers are never disturbed by a concurrent packer."""
from vlib import conclab

PROPERTY = 'C04'
LEVEL = 'exploration'
RULE = ('actors = {packer: pack_all_loose(compress no/yes/auto, clean_loose_per_pack F/T) + clean_storage, up to 3 cycles} x {readers: single, '
        'bulk, metadata-only, has_objects, chunked, seeking read of a compressed packed object, bulk read with a seeking read on every yielded stream; fresh or long-open/pinned handle; default or shadowed lookup thresholds} x {writers: '
        'new and duplicate content}; switch points = every interposed file-system call and SQL statement. Layer 1 (exhaustive at depth 1): the '
        'whole client operation at EVERY boundary of the packer, and the whole packer cycle at EVERY boundary of each client operation. Layer 2: '
        'client paused at boundary j, packer advanced k1..k2, client finished (scripted on a thread scheduler that runs one actor at a time). '
        'Layer 3: seeded random and PCT schedules with 1-3 writers, 1-3 readers, one packer. Layer 4: the same actors as real parallel processes with 0-2 ms delays injected at I/O events (acknowledgement in real time through per-writer logs). Every client result is judged against the objects '
        'acknowledged (add returned) when that client call started. Distinct = boundary placements / distinct traces (hash of the (actor, event) '
        'sequence).')
ASSUMPTIONS = ['an interleaving is characterised by the order of the actors\' I/O calls (handles share no memory); threads stand for processes '
               '(SQLite coordinates connections of one process through the same WAL/shm protocol)', 'at most 3 cleaning passes per run '
               '(LazyLooseStream gives up after 3 failed opens by design)', 'one packer at a time (documented requirement)']
TECHNIQUE = 'runtime monitoring under a deterministic scheduler: exhaustive depth-1 placements, scripted depth-2, random/PCT schedules at I/O-call granularity'


def run(ctx):
    for c in ('depth1-cases', 'boundaries-enumerated', 'client:index-requery-after-loose-miss', 'probe-between-commit-and-unlink',
              'probe-between-pack-write-and-commit', 'probe-after-some-loose-unlinked', 'depth2-cases', 'random-schedules',
              'context-switches', 'op:seek', 'op:write-dup', 'op:bulkseek', 'depth1-cases-with-full-scan-lookups', 'multi-process-runs', 'multi-process-client-ops'):
        ctx.require(c)
    cases = []
    packers = conclab.PACKER_VARIANTS if not ctx.quick else [('no', False), ('yes', True), ('auto', True)]
    for mode, clpp in packers:
        for probe in conclab.PROBES:
            for pinned in (False, True):
                if ctx.quick and pinned and probe in ('chunks', 'meta'):
                    continue
                cases.append({'direction': 'probe-in-packer', 'mode': mode, 'clpp': clpp, 'probe': probe, 'pinned': pinned, 'seed': ctx.seed})
    for mode, clpp in (packers if not ctx.quick else [('no', True), ('yes', False)]):
        for probe in conclab.PROBES:
            for pinned in (False, True):
                cases.append({'direction': 'packer-in-client', 'mode': mode, 'clpp': clpp, 'probe': probe, 'pinned': pinned, 'seed': ctx.seed})
    # the same placements with the clients' lookup thresholds shadowed (ordered full scan instead of IN-chunks, also in the fallback)
    for probe in ('bulk', 'meta', 'has', 'bulkseek'):
        for direction in ('probe-in-packer', 'packer-in-client'):
            cases.append({'direction': direction, 'mode': 'yes', 'clpp': True, 'probe': probe, 'pinned': direction == 'probe-in-packer',
                          'seed': ctx.seed, 'low': True, 'pack_target': 700})
    ctx.map(conclab.run_depth1, cases)
    d2 = []
    for mode, clpp in (packers if not ctx.quick else [('yes', True)]):
        for probe in conclab.PROBES:
            d2.append({'mode': mode, 'clpp': clpp, 'probe': probe, 'seed': ctx.seed, 'limit': ctx.pick(40, 2500), 'stride': ctx.pick(3, 1)})
    ctx.map(conclab.run_depth2, d2)
    nrand = ctx.pick(320, 6000)
    per = 20
    ctx.map(conclab.run_random, [{'seed': ctx.seed * 7919 + i, 'n': per} for i in range(nrand // per)])
    # layer 4: the same actors as real, genuinely parallel processes with small injected delays (cross-checks the scheduler's
    # threads-for-processes assumption)
    nmp = ctx.pick(16, 240)
    ctx.map(conclab.run_multiprocess, [{'seed': ctx.seed * 104729 + i, 'n': 4} for i in range(nmp // 4)], workers=4)


def replay(ctx, rep):
    r = rep['replay']
    if 'depth1' in r:
        ctx.map(conclab.run_depth1, [r['depth1']])
    elif 'depth2' in r:
        ctx.map(conclab.run_depth2, [r['depth2']])
    else:
        ctx.map(conclab.run_random, [{'seed': 0, 'n': 1, 'explicit': r['random']}])
