"""C05 - a process crash at any point never loses or tears an object."""
from vlib import common, crashchecks

PROPERTY = 'C05'
LEVEL = 'fault_enumeration'
RULE = ('for every operation variant (add/streamed add/re-loosen, pack_all_loose x compress x clean_loose_per_pack x pack target, '
        'clean_storage x vacuum, direct-to-pack x compress x no_holes variants x multipack, import same/different hash, delete, '
        'repack x mode) on generated pre-states, a dry run under the I/O interposition layer lists every mutating boundary (file '
        'open-for-write/write/flush/truncate/close, fsync/fcntl, rename/replace/link/unlink/mkdir, SQL INSERT/UPDATE/DELETE/VACUUM/'
        'commit); for EVERY boundary k a forked child is killed with os._exit right before it (buffers lost) and the post-mortem '
        'folder is read raw (sqlite3+zlib) and through a fresh Container. Additionally (E5) an uninstrumented interpreter is killed by strace on entry of the '
        'n-th real syscall (write/pwrite64/fsync/fdatasync/rename/unlink/link/mkdir/ftruncate on container paths, incl. SQLite\'s WAL writes): '
        'quick samples 6 syscalls of 3 variants, thorough up to 40 of every variant. Distinct = (variant, boundary index); non-trivial = '
        'variants with >= 2 boundaries.')
ASSUMPTIONS = ['boundaries are Python-level calls (open/write/flush/close/os.*/SQL statement); effects torn inside one call are not explored here',
               'SQLite recovers its own WAL (the index is opened read-write post mortem, as the next client would)']
TECHNIQUE = 'runtime fault injection: kill (os._exit) at every interposed I/O boundary of every operation variant + raw/fresh-handle oracle'
LEVEL_NOTE = 'trusted: the interposition layer sees every file-system call of the library (guarded by audit-hook blind-spot detection); SQLite WAL atomicity'


def run(ctx):
    for c in ('kills', 'control-runs', 'oracle-evaluations', 'pre-existing-objects-checked', 'fresh-handle-reads',
              'boundary:sql:commit', 'boundary:write', 'boundary:rename', 'states-with-index-pointing-at-temporary-pack',
              'sys-kills', 'sys-boundaries-inside-sqlite'):
        ctx.require(c)
    ctx.exhaustive = True
    res = ctx.map(crashchecks.run_crash_variant, crashchecks.variant_cases(ctx, PROPERTY, 'crash'))
    ctx.extra['boundaries_per_variant'] = {r['extra']['name']: r['extra']['n'] for r in res if r.get('extra')}
    # the same experiment at real-syscall granularity (strace attach + kill on syscall entry): SQLite's own writes, CPython's flushes
    sys_names = None if not ctx.quick else ['pack_all_loose:yes:clpp=1@', 'add_objects_to_pack:z=1:nh1@', 'repack:keep@']
    ctx.map(crashchecks.run_sys_variant, crashchecks.sys_cases(ctx, PROPERTY, 'syskill', names=sys_names, limit=ctx.pick(6, 25)))
    ctx.extra['exhaustive_scope'] = 'every Python-level boundary of each listed variant/pre-state pair (not exhaustive over variants or contents)'


def replay(ctx, rep):
    r = rep['replay']
    ctx.map(crashchecks.run_crash_variant, [{'prop': PROPERTY, 'variant': r['variant'], 'mode': 'crash', 'name': r['variant']['name']}])
