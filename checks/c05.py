"""C05 - a process crash at any point never loses or tears an object."""
from vlib import common, crashchecks

PROPERTY = 'C05'
LEVEL = 'fault_enumeration'
RULE = ('for every operation variant (add/streamed add/re-loosen, pack_all_loose x compress x clean_loose_per_pack x pack target, '
        'clean_storage x vacuum, direct-to-pack x compress x no_holes variants x multipack, import same/different hash, delete, '
        'repack x mode) on generated pre-states, a dry run under the I/O interposition layer lists every mutating boundary (file '
        'open-for-write/write/flush/truncate/close, fsync/fcntl, rename/replace/link/unlink/mkdir, SQL INSERT/UPDATE/DELETE/VACUUM/'
        'commit); for EVERY boundary k a forked child is killed with os._exit right before it (buffers lost) and the post-mortem '
        'folder is read raw (sqlite3+zlib) and through a fresh Container. Distinct = (variant, boundary index); non-trivial = '
        'variants with >= 2 boundaries.')
ASSUMPTIONS = ['boundaries are Python-level calls (open/write/flush/close/os.*/SQL statement); effects torn inside one call are not explored here',
               'SQLite recovers its own WAL (the index is opened read-write post mortem, as the next client would)']
TECHNIQUE = 'runtime fault injection: kill (os._exit) at every interposed I/O boundary of every operation variant + raw/fresh-handle oracle'
LEVEL_NOTE = 'trusted: the interposition layer sees every file-system call of the library (guarded by audit-hook blind-spot detection); SQLite WAL atomicity'


def run(ctx):
    for c in ('kills', 'control-runs', 'oracle-evaluations', 'pre-existing-objects-checked', 'fresh-handle-reads',
              'boundary:sql:commit', 'boundary:write', 'boundary:rename', 'states-with-index-pointing-at-temporary-pack'):
        ctx.require(c)
    ctx.exhaustive = True
    res = ctx.map(crashchecks.run_crash_variant, crashchecks.variant_cases(ctx, PROPERTY, 'crash'))
    ctx.extra['boundaries_per_variant'] = {r['extra']['name']: r['extra']['n'] for r in res if r.get('extra')}
    ctx.extra['exhaustive_scope'] = 'every Python-level boundary of each listed variant/pre-state pair (not exhaustive over variants or contents)'


def replay(ctx, rep):
    r = rep['replay']
    ctx.map(crashchecks.run_crash_variant, [{'prop': PROPERTY, 'variant': r['variant'], 'mode': 'crash', 'name': r['variant']['name']}])
