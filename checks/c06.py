"""C06 - publish only after durable; remove only after the replacement is durable."""
from vlib import crashchecks

PROPERTY = 'C06'
LEVEL = 'fault_enumeration'
RULE = ('the crash enumeration of C05 restricted to operations with their default fsync settings; the child additionally stores a '
        'snapshot of every regular file at each completed os.fsync/os.fdatasync (fcntl counts only if cmd == fcntl.F_FULLFSYNC on a '
        'platform that defines it); after the kill at boundary k the POWER-LOSS IMAGE is built: directory tree and packs.idx* as left '
        'by the kill, every regular file under loose/ packs/ sandbox/ duplicates/ replaced by its content at its last fsync (template '
        'content if pre-existing and never synced, empty if created and never synced); the image is read raw and through a fresh '
        'Container. Second monitor: an offline checker over the real syscall log (strace -y on an uninstrumented '
        'run) of every variant: R1 rename(sandbox->loose) only of a file with no write since its last fsync; R2 no WAL commit frame (parsed '
        'from the pwrite64 payload) while a pack file has unsynced bytes; R3 no unlink of a loose object / pack while pack bytes await a commit. '
        'Distinct = (variant, boundary index); non-trivial = variants with >= 2 boundaries.')
ASSUMPTIONS = ['fault model of the property: directory operations and committed SQLite transactions survive; file data survives only up to the last fsync of that inode',
               'SQLite WAL commits are trusted durable', 'boundaries are Python-level calls']
TECHNIQUE = 'runtime fault injection: kill at every interposed I/O boundary + adversarial power-loss image from fsync-time snapshots + raw/fresh-handle oracle'
LEVEL_NOTE = 'trusted: the interposition layer sees every sync call (os.fsync/os.fdatasync/fcntl/os.sync); SQLite durability'


def run(ctx):
    for c in ('kills', 'control-runs', 'oracle-evaluations', 'image:from-last-fsync', 'image:files-changed-by-power-loss',
              'image:never-synced', 'boundary:fsync', 'boundary:sql:commit', 'ordering-traces-checked', 'order:wal-commit-frames',
              'order:publishing-renames', 'order:loose-unlinks', 'order:pack-unlinks'):
        ctx.require(c)
    ctx.exhaustive = True
    res = ctx.map(crashchecks.run_crash_variant, crashchecks.variant_cases(ctx, PROPERTY, 'powerloss', default_fsync_only=True))
    ctx.extra['boundaries_per_variant'] = {r['extra']['name']: r['extra']['n'] for r in res if r.get('extra')}
    # second, independent monitor: offline ordering checker over the REAL syscall log of an uninstrumented run (strace)
    ctx.map(crashchecks.run_sys_variant, crashchecks.sys_cases(ctx, PROPERTY, 'sysorder', default_fsync_only=True))
    ctx.extra['exhaustive_scope'] = 'every Python-level boundary of each listed variant/pre-state pair (not exhaustive over variants or contents)'


def replay(ctx, rep):
    r = rep['replay']
    ctx.map(crashchecks.run_crash_variant, [{'prop': PROPERTY, 'variant': r['variant'], 'mode': 'powerloss', 'name': r['variant']['name']}])
