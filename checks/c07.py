"""C07 - every returned stream behaves like an in-memory file over the object."""
import json
import os
import subprocess
import sys

from vlib import common, streamlab

PROPERTY = 'C07'
LEVEL = 'exploration'
RULE = ('programs over {read(n), read(), seek(t,0|1|2), tell()} run in lock-step on the stream the library hands out and on a '
        'position/contents model with the acceptance rules of the property (in-range: exactly io.BytesIO incl. seek/tell return values; '
        'out-of-range: rejected or clamped, position intact, no byte from outside the object); objects of 0/1/10 bytes: ALL programs up to '
        'length 2 (thorough: 3) over an 18-20 op alphabet, plus sampled longer ones; objects of 768..600000 bytes: seeded random programs '
        'of length 12-40; forms: loose, packed plain, packed compressed with the re-loosened cache absent / present / removed mid-program, '
        'bulk reads, bare decompresser; the object sits between two sentinel neighbours in its pack; the whole table also runs under '
        'python -O. Distinct = (object, program, form); every program-run is non-trivial.')
ASSUMPTIONS = ['any exception counts as a rejection of an out-of-range seek (its type is not prescribed)',
               'the bare decompresser without cache may reject whence=2 (it is not a stream the container hands out)',
               'object sizes <= 600000 bytes']
TECHNIQUE = 'runtime monitoring: lock-step reference model (io.BytesIO semantics) over enumerated and random stream programs, with and without asserts'


def cases(ctx):
    out = []
    for size in streamlab.SMALL:
        out.append({'seed': ctx.seed * 100 + size, 'size': size, 'kind': 'text', 'programs': 'exhaustive',
                    'maxlen': ctx.pick(2, 3), 'sample_last': ctx.pick(400, 3000)})
    nrand = ctx.pick(40, 1500)
    for size in streamlab.LARGE:
        for kind in (['text'] if ctx.quick else ['text', 'mix', 'rnd']):
            for part in range(ctx.pick(2, 8)):
                out.append({'seed': ctx.seed * 100 + size + part * 7 + 1, 'size': size, 'kind': kind,
                            'programs': max(4, nrand // (2 if size > 100000 else 1) // ctx.pick(2, 8))})
    # a large INCOMPRESSIBLE object: its deflate stream is longer than the decompresser's 512 KiB input chunk, so reads cross the
    # internal chunk boundary (left-over inflated bytes, unconsumed tail) before backward seeks
    out.append({'seed': ctx.seed * 100 + 991, 'size': 600000, 'kind': 'rnd', 'programs': ctx.pick(30, 300),
                'forms': ['zipped', 'zipped+cache', 'bulk-zipped', 'bare', 'plain']})
    return out


def run(ctx):
    for c in ('program-runs', 'reads', 'seeks-in-range', 'seeks-out-of-range', 'out-of-range-rejected', 'pack-reader-invariant-checks',
              'optimized', 'with-asserts', 'form:zipped+cache-removed', 'form:bulk-zipped', 'form:bare'):
        ctx.require(c)
    todo = cases(ctx)
    ctx.map(streamlab.run_case, todo)
    # the same table with asserts stripped (the pack reader's only guard is an assert)
    tmp = ctx.scratch('c07-O-')
    cfile, ofile = os.path.join(tmp, 'cases.json'), os.path.join(tmp, 'out.json')
    sub = todo if not ctx.quick else [c for c in todo if c['programs'] != 'exhaustive' or c['size'] in (1, 10)]
    with open(cfile, 'w', encoding='utf8') as fh:
        json.dump(sub, fh)
    env = dict(os.environ)
    env['PYTHONPATH'] = common.VERIF + (os.pathsep + os.environ['VERIF_REPO'] if os.environ.get('VERIF_REPO') else '')
    proc = subprocess.run([sys.executable, '-O', '-m', 'vlib.streamlab_o', cfile, ofile], env=env, cwd=common.VERIF,
                          capture_output=True, text=True, timeout=3000, check=False)
    if proc.returncode != 0 or not os.path.exists(ofile):
        ctx.inconclusive.append(f'python -O pass failed: rc={proc.returncode} {proc.stderr[-400:]}')
        return
    inner = json.load(open(ofile, encoding='utf8'))
    if inner['debug']:
        ctx.inconclusive.append('python -O pass ran with asserts enabled')
    ctx.inconclusive += inner['inconclusive']
    for res in inner['results']:
        ctx.absorb(res)


def replay(ctx, rep):
    case = rep['replay']['case']
    ctx.map(streamlab.run_explicit, [case])
