"""C08 - a long-open handle sees everything acknowledged through other handles."""
from vlib import multihandle

PROPERTY = 'C08'
LEVEL = 'exploration'
RULE = ('(i) bounded-exhaustive: every mutation skeleton of length <= 3 (thorough: 4) over {add via observer A, add via packer P, '
        'pack_all_loose(clean_loose_per_pack F/T), clean_storage} x every position and kind (6) of one earlier query on A that may pin '
        'its index snapshot; all five views (has_objects, get_object_content, get_objects_content, get_objects_meta, list_all_objects) '
        'are checked on A at the end and on a second long-open observer B after every step (bulk views both with skip_if_missing True and False); the shorter skeletons are repeated with a 40-byte pack target (several packs) and with the EMPTY object as the first new content; (ii) seeded random histories over 3-4 handles, '
        '8-30 steps incl. compressed packing and direct-to-pack writes by P, queries at random positions. Distinct = (skeleton, pin '
        'position, pin kind) / step sequence; every history is non-trivial (>= 1 add and >= 5 view checks).')
ASSUMPTIONS = ['operations are issued one at a time (sequential histories)', 'only the five view kinds named by the property are judged',
               'packing/cleaning only through the packing handle P']
TECHNIQUE = 'runtime monitoring: bounded-exhaustive + random sequential multi-handle histories with a model of acknowledged objects'


def run(ctx):
    for c in ('histories', 'view:list_all_objects', 'view:has_objects', 'step:clean', 'step:packT', 'histories-adding-the-empty-object',
              'histories-with-several-packs'):
        ctx.require(c)
    hists = multihandle.enumerate_histories(ctx.pick(3, 4))
    # the same skeletons with several small packs (objects land in different packs) and with the EMPTY object as the first new content
    extra = multihandle.enumerate_histories(ctx.pick(2, 3))
    hists = hists + [{**h, 'pack_target': 40} for h in extra] + [{**h, 'empty_first': True} for h in extra]
    chunk = 120
    cases = [{'histories': hists[i:i + chunk]} for i in range(0, len(hists), chunk)]
    ctx.map(multihandle.run_enumerated, cases)
    ctx.extra['enumerated_histories'] = len(hists)
    nrand = ctx.pick(400, 20000)
    per = 50
    ctx.map(multihandle.run_random, [{'seed': ctx.seed * 100003 + i, 'n': per} for i in range(nrand // per)])


def replay(ctx, rep):
    r = rep['replay']
    if 'history' in r:
        ctx.map(multihandle.run_enumerated, [{'histories': [r['history']]}])
    else:
        ctx.map(multihandle.run_random, [{'seed': 0, 'n': 1, 'explicit': r['explicit'], 'conf': r.get('conf')}])
