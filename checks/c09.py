"""C09 - storing known content never creates a second copy (deduplication)."""
from vlib import histories

PROPERTY = 'C09'
LEVEL = 'exploration'
RULE = ('seeded histories biased to recurrence (pool of 6-10 contents, duplicates inside a batch, across batches and '
        'across loose/packed forms, damaged-loose-copy re-adds) x {no_holes, no_holes_read_twice, compress}; after every '
        'step the raw reader (sqlite3+os.walk) counts index rows per key, loose files per key, pack-file bytes vs '
        'referenced bytes, and the model is read back. Distinct by (configuration, op kinds+flags); non-trivial when the '
        'history has >= 3 op kinds.')
ASSUMPTIONS = ['"unreferenced bytes" are measured as pack-file size minus sum of index lengths before/after each no_holes call',
               'damage to a loose copy = bit flip / truncation / emptying / extension of the file in place']
MONITORS = ['dedup', 'views']
GEN = {'pool_size': 7, 'no_holes_p': 0.75, 'big_p': 0.0, 'chunk_p': 0.05,
       'weights': {'damage_loose_readd': 5, 'add_objects_to_pack': 12, 'add_streamed_objects_to_pack': 8,
                   'add_streamed_object_to_pack': 5, 'repack': 1, 'repack_pack': 1, 'delete': 2, 'init_again': 0,
                   'seek_read': 1, 'loosen': 3, 'import': 4}}


def cases(ctx):
    n = ctx.pick(240, 6000)
    return [{'prop': PROPERTY, 'seed': ctx.seed * 1000003 + i, 'monitors': MONITORS, 'steps': (8, 30), 'gen': GEN,
             'views_every': 3} for i in range(n)]


def run(ctx):
    for counter in ('dedup-checks', 'dedup-no-holes-calls', 'dedup-no-holes-known-content', 'dedup-no-holes-rewind',
                    'loose-copy-damaged', 'view-checks'):
        ctx.require(counter)
    ctx.map(histories.run_history, cases(ctx))


def replay(ctx, rep):
    r = rep['replay']
    ctx.map(histories.run_history, [{'prop': PROPERTY, 'seed': r.get('case_seed', 0), 'cfg': r['cfg'], 'ops': r['ops'],
                                     'monitors': MONITORS}])
