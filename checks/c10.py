"""C10 - compression is transparent and honours the requested mode."""
from vlib import complab

PROPERTY = 'C10'
LEVEL = 'exploration'
RULE = ('generated chains: 3-7 objects (empty, 1 byte, tiny random, highly compressible, incompressible 140 kB, compressible-head/'
        'incompressible-tail and the reverse around the 128 KiB sampling window of AUTO, 300 kB) stored loose / directly packed plain / '
        'directly packed compressed, then pack_all_loose(bool or any CompressMode) and 3-7 further steps (repack with a random mode, more '
        'adds+pack, clean, reopen) under zlib level 1..9 and small/large pack target; after EVERY step: all contents read back, every '
        'affected object stored in a form the mode allows (YES compressed, NO plain, KEEP unchanged, AUTO either), recorded size = content '
        'length, meta = index row, raw range inflates exactly, after a full repack each pack is exactly the tiling by its rows (stored '
        'length = bytes occupied), get_total_size = raw sums. Distinct = chain digest.')
ASSUMPTIONS = ['AUTO may choose either form', 'pack_all_loose(KEEP) is documented as NO for loose objects', 'object sizes <= 300 kB']
TECHNIQUE = 'runtime monitoring: generated pack/repack chains with raw (sqlite3+zlib) oracles after every step'


def run(ctx):
    for c in ('chains', 'affected-objects-checked', 'tiling-checks', 'total-size-checks', 'stored:z:yes', 'stored:plain:no',
              'stored:z:auto', 'stored:plain:auto', 'stored:z:keep', 'stored:plain:keep'):
        ctx.require(c)
    n = ctx.pick(240, 5000)
    per = 10
    ctx.map(complab.run_batch, [{'seed': ctx.seed * 100003 + i, 'n': per} for i in range(n // per)])


def replay(ctx, rep):
    ctx.map(complab.run_batch, [{'seed': 0, 'n': 1, 'explicit': rep['replay']['explicit']}])
