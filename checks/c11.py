"""C11 - deletion removes exactly the requested objects; repack reclaims their space."""
from vlib import dellab

PROPERTY = 'C11'
LEVEL = 'exploration'
RULE = ('generated layouts: 4-10 objects with unique random contents stored loose / packed plain / packed compressed / in both forms over '
        'one or several packs, optionally with stray duplicates/<key>.<uuid> files produced by the library\'s own branch (PermissionError '
        'injected into os.replace); delete_objects(S) (with _IN_SQL_MAX_LENGTH shadowed to 1-3 on half of the handles, so that a few keys span several SQL batches) for S in {some, one, all, none, present+absent, repeated keys, only absent}; oracle: '
        'returned set = S intersect present, every view on the same and on a fresh handle = model, no loose file / index row / duplicate '
        'of a deleted key left, rows and loose files of other objects unchanged; then repack(mode in KEEP/YES/NO/AUTO): every pack is '
        'exactly the tiling by its live rows, packs without live rows are gone, the plain and stored bytes of deleted objects occur in no '
        'pack file, a hole-free pack is byte-identical under KEEP; 40 % of the cases run a second delete + repack round (pack ids may have gaps by then). Distinct = case digest.')
ASSUMPTIONS = ['deleted contents are unique random bytes >= 40 bytes so that a substring search is meaningful', 'no concurrent access during delete (documented requirement)']
TECHNIQUE = 'runtime monitoring: generated layouts x subset classes x repack modes with model, raw-reader and byte-search oracles'


def run(ctx):
    for c in ('deletes', 'form:loose', 'form:packed', 'form:both', 'subset:mixed-absent', 'subset:repeated', 'subset:all', 'subset:none',
              'stray-duplicates-created', 'repack:keep', 'repack:yes', 'deleted-bytes-searches', 'hole-free-packs-under-keep',
              'deletes-spanning-several-sql-batches'):
        ctx.require(c)
    n = ctx.pick(320, 6000)
    per = 16
    ctx.map(dellab.run_batch, [{'seed': ctx.seed * 100003 + i, 'n': per} for i in range(n // per)])


def replay(ctx, rep):
    ctx.map(dellab.run_batch, [{'seed': 0, 'n': 1, 'explicit': rep['replay']['explicit']}])
