"""C12 - validate() is clean on every reachable state and never clean on a damaged one."""
from vlib import damagelab, histories

PROPERTY = 'C12'
LEVEL = 'exploration'
RULE = ('(no false positives) validate().is_valid() after every step of seeded API histories (the C02 generator: all operations and parameters); '
        '(no false negatives) for generated containers (loose + packed plain + packed compressed, one or several packs, sha1/sha256, zlib 1-9): '
        'every single-bit flip of every referenced byte of small objects and of sampled positions of large ones, truncations of every loose '
        'file and of every pack inside referenced ranges, pack removal, and for every index row offset in {+-1, +-length, 0, EOF, beyond EOF, -1}, '
        'length in {+-1, 0, x2, huge}, size in {+-1, 0}, compressed toggled, pack_id changed; the ground truth is obtained by reading every '
        'object through a fresh handle (exception, other bytes, or length != recorded size); whenever it shows damage validate() must raise '
        'or report issues (a hang > 20 s is reported too). Distinct = (container, damage); non-trivial = all.')
ASSUMPTIONS = ['damage that reading cannot observe (e.g. a flipped padding bit of a deflate block) imposes no obligation',
               'single damages only', 'objects <= 70 kB in the damage lab']
TECHNIQUE = 'runtime monitoring: validate() vs ground truth by full read-back over enumerated single damages; validate() after every step of generated histories'
MONITORS = ['validate']


def run(ctx):
    for c in ('validate-calls', 'damages', 'damages-observable', 'damage:bitflip', 'damage:truncate-loose', 'damage:truncate-pack',
              'damage:index-offset', 'damage:index-length', 'damage:index-size', 'damage:index-compressed', 'validate:issues'):
        ctx.require(c)
    n = ctx.pick(140, 4000)
    ctx.map(histories.run_history, [{'prop': PROPERTY, 'seed': ctx.seed * 1000003 + i, 'monitors': MONITORS, 'steps': (8, 30)}
                                    for i in range(n)])
    ncont = ctx.pick(16, 200)
    ctx.map(damagelab.run_container, [{'seed': ctx.seed * 1009 + i, 'density': ctx.pick(3, 12)} for i in range(ncont)])


def replay(ctx, rep):
    r = rep['replay']
    if 'damage' in r:
        ctx.map(damagelab.run_container, [r['damage']])
    else:
        ctx.map(histories.run_history, [{'prop': PROPERTY, 'seed': r.get('case_seed', 0), 'cfg': r['cfg'], 'ops': r['ops'],
                                         'monitors': MONITORS}])
