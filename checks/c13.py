"""C13 - packs are append-only and filled in order (rsync-friendly layout)."""
from vlib import histories

PROPERTY = 'C13'
LEVEL = 'exploration'
RULE = ('seeded histories without repack (add / direct-to-pack with all no_holes variants / pack_all_loose / clean / import / '
        'delete / reopen, 1-3 handles with cached pack ids) for pack_size_target in {1,50,500,70000,4GiB}; before and after '
        'every step all pack files and index rows are snapshotted raw: referenced bytes unchanged, no pack below its last '
        'referenced byte, ids 0..n-1, every non-highest pack >= target and byte-identical across the step. Distinct by '
        '(configuration, op kinds+flags); non-trivial with >= 3 op kinds.')
ASSUMPTIONS = ['histories contain no repack (the property excludes it)', 'snapshots are taken between operations, not inside them '
               '(inside-operation write positions are covered by the I/O event monitor of the same check)']
MONITORS = ['append', 'iolog']
TECHNIQUE = 'runtime monitoring: raw before/after pack snapshots + interposed write-event log per step of generated histories'
ALLOW = ['add_object', 'add_streamed', 'add_objects_to_pack', 'add_streamed_objects_to_pack',
         'add_streamed_object_to_pack', 'pack_all_loose', 'clean_storage', 'delete', 'loosen', 'seek_read', 'import',
         'reopen', 'init_again', 'switch_handle']


def cases(ctx):
    n = ctx.pick(260, 6000)
    out = []
    for i in range(n):
        out.append({'prop': PROPERTY, 'seed': ctx.seed * 1000003 + i, 'monitors': MONITORS, 'steps': (8, 40), 'tolerate_stale_writer': True,
                    'pack_targets': [1, 50, 500, 500, 70000, 70000, 4 * 1024 ** 3],
                    'gen': {'allow': ALLOW, 'big_p': 0.01, 'chunk_p': 0.08, 'handles': 3}})
    return out


def run(ctx):
    ctx.require('append-checks')
    ctx.require('append-multi-pack-states')
    ctx.require('iolog-pack-writes')
    ctx.map(histories.run_history, cases(ctx))


def replay(ctx, rep):
    r = rep['replay']
    ctx.map(histories.run_history, [{'prop': PROPERTY, 'seed': r.get('case_seed', 0), 'cfg': r['cfg'], 'ops': r['ops'],
                                     'monitors': MONITORS, 'tolerate_stale_writer': True}])
