"""C14 - importing transfers exactly the requested objects, byte-identical."""
from vlib import importlab

PROPERTY = 'C14'
LEVEL = 'exploration'
RULE = ('generated source and destination containers (hash types {sha1,sha256}^2, forms loose/plain/compressed/mixed, destination pack target '
        'small/large, destination already holding some of the objects loose/packed/both) x request set (present, absent, repeated, shuffled) '
        'delivered as list/tuple/set/dict keys/one-shot generator/iterator x callback yes/no x target_memory_bytes from 1 to huge x compress; '
        'after import_objects the returned mapping, the destination views (fresh handle), the index rows and pack sizes before/after (raw reader), '
        'validate() and the callback protocol are compared with the expectation; the three cache branches are counted through call spies. '
        'A full cross product {iter kind} x {callback} x {same/different hash} is forced on top of the random cases. Distinct = case digest.')
ASSUMPTIONS = ['object sizes <= 150000 bytes', 'the source is not modified during the import']
TECHNIQUE = 'runtime monitoring: generated import scenarios with before/after raw comparison of the destination and a reference mapping'


def run(ctx):
    for c in ('imports', 'iter:generator', 'iter:iter', 'iter:set', 'with-callback', 'different-hash', 'same-hash',
              'branch:streamed-big-object', 'branch:cache-flushed-midway', 'branch:final-flush',
              'imports-with-already-present-objects', 'imports-with-requested-present'):
        ctx.require(c)
    n = ctx.pick(500, 15000)
    per = 25
    cases = [{'seed': ctx.seed * 100003 + i, 'n': per} for i in range(n // per)]
    force = []
    for it in importlab.ITER_KINDS:
        for cb in (False, True):
            for hashes in (('sha256', 'sha256'), ('sha1', 'sha256'), ('sha256', 'sha1'), ('sha1', 'sha1')):
                force.append({'iter': it, 'callback': cb, 'src_hash': hashes[0], 'dst_hash': hashes[1]})
    cases += [{'seed': ctx.seed * 100003 + 900000 + i, 'n': len(force), 'force': force} for i in range(ctx.pick(2, 20))]
    ctx.map(importlab.run_cases, cases)


def replay(ctx, rep):
    ctx.map(importlab.run_cases, [{'seed': 0, 'n': 1, 'explicit': rep['replay']['explicit']}])
