"""C15 - a backup taken while the container is in use is complete and consistent."""
from vlib import backuplab

PROPERTY = 'C15'
LEVEL = 'exploration'
RULE = ('a real backup (backup_auto_folders + backup_container, real rsync) runs as one actor; a mutator actor (adds, pack_all_loose +/- '
        'clean_loose_per_pack +/- compress, clean_storage, direct-to-pack) is advanced by the deterministic scheduler to chosen I/O boundaries '
        'while the backup is parked at one of its 6 phase boundaries (before the loose copy, after it, after the SQLite dump, after the dump '
        'transfer, after the packs copy, after the final copy): enumerated = the whole mutator at every phase boundary, (phase, mutator boundary k) pairs for k right after each index commit / pack close / before the first loose unlink and for sampled k '
        ' [first k events at the phase boundary, the rest after the backup] and two-cut triples; ~30% of the cases '
        'are incremental on top of a previous backup (real time passes in between), ~50% have an additional long-lived reader whose open index '
        'connection keeps SQLite from ever checkpointing the WAL. A backup that returned successfully is opened as a Container: every object that existed '
        'at backup start reads back exactly, every listed key hashes to itself, validate() is clean. Distinct = (placement plan, mutator ops, '
        'pack target, incremental).')
ASSUMPTIONS = ['quick: placements are at phase boundaries of the backup; thorough additionally overlaps the client with the running rsync of the loose, packs and final copies (real time, not controlled at file granularity)',
               'rsync 3.x is installed (otherwise the check is inconclusive)', 'a backup that raises BackupError is vacuous and counted separately']
TECHNIQUE = 'runtime monitoring under a deterministic scheduler: real rsync backups with the concurrent client placed at enumerated phase/I-O boundaries; backup opened and validated as a container'


def run(ctx):
    for c in ('backups', 'backups-completed', 'placement-at-point:0', 'placement-at-point:3', 'placement-at-point:4', 'placement-at-point:5',
              'previous-backups-taken', 'placements-right-after-a-commit-or-pack-close',
              'client-events-executed-while-the-backup-was-in-progress', 'sites-with-a-long-lived-reader'):
        ctx.require(c)
    n = ctx.pick(7, 120)
    cases = [{'seed': ctx.seed * 1009 + i, 'nk': ctx.pick(2, 5), 'pair_p': ctx.pick(0.3, 0.8), 'special_p': ctx.pick(0.4, 1.0), 'ntriples': ctx.pick(1, 6)} for i in range(n)]
    # one fixed scenario that is always present: a full pack+clean cycle at every phase boundary of a non-incremental and an incremental backup
    for inc, reader in ((False, False), (True, True), (False, True)):
        cases.append({'seed': ctx.seed * 1009 + 5000 + int(inc) + 2 * int(reader), 'incremental': inc, 'reader': reader, 'target': 4 * 1024 ** 3,
                      'mut_ops': [['add', 2], ['pack', 'no', True], ['clean'], ['direct', 1, False]],
                      'nk': ctx.pick(1, 6), 'pair_p': 1.0, 'special_p': 1.0, 'ntriples': ctx.pick(1, 6)})
    # a client that packs without fsync (a documented option): its pack tail sits in the user-space buffer until the pack is closed
    cases.append({'seed': ctx.seed * 1009 + 6000, 'incremental': False, 'reader': False, 'target': 4 * 1024 ** 3,
                  'mut_ops': [['add', 3], ['pack', 'no', False, False], ['clean'], ['add', 1], ['pack', 'yes', True, False]],
                  'nk': ctx.pick(1, 6), 'pair_p': 1.0, 'special_p': 1.0, 'ntriples': ctx.pick(0, 4)})
    if not ctx.quick:
        # thorough: the client also runs INSIDE the loose copy, the packs copy and the final copy (real overlap with the running rsync)
        for i in range(12):
            cases.append({'seed': ctx.seed * 1009 + 7000 + i, 'nk': 3, 'pair_p': 0.0, 'special_p': 0.0, 'ntriples': 0, 'during': [0, 3, 4]})
    ctx.map(backuplab.run_cases, cases)


def replay(ctx, rep):
    ctx.map(backuplab.run_cases, [rep['replay']['backup']])
