"""C16 - bulk operations do not depend on batch size or internal lookup strategy."""
from vlib import bulklab

PROPERTY = 'C16'
LEVEL = 'exploration'
RULE = ('(i) differential: generated containers (objects loose only / packed only / both) and requests (random order, repeated keys, absent keys); '
        'has_objects, get_objects_meta, get_objects_content, get_objects_stream_and_meta (skip_if_missing both ways) on a handle with default '
        'thresholds and on a handle with _IN_SQL_MAX_LENGTH in {1,2,3,5} and _MAX_CHUNK_ITERATE_LENGTH in {1,4,7,inf} (instance attributes) are '
        'compared with the single-key operations per distinct key (each key exactly once); pack_all_loose / clean_storage / delete_objects / '
        'import_objects under lowered thresholds must reach the model state. (ii) the real thresholds on a 10 200-object container: request sizes '
        '0,1,949,950,951,1900,1901,9499,9500,9501,10200 and index sizes 999,1000,1001,2000,2001 for the 1000-row paging of list_all_objects and '
        'no_holes. (iii) detect_where_sorted / merge_sorted: ALL pairs of sorted unique sequences over a 6-element universe (4096 pairs, with '
        'and without left_key) against set algebra, ALL pairs of sequences of length <= 3 over 4 elements that are not both sorted+unique must '
        'raise ValueError; chunk_iterator on all (n < 12, size < 6). Distinct = (objects, request, thresholds, operation) / pair.')
ASSUMPTIONS = ['thresholds are lowered by shadowing the class attributes on the instance (no source change)',
               'exhaustive only for the helper functions (part iii)']
TECHNIQUE = 'runtime monitoring: differential bulk-vs-single-key oracle under shadowed thresholds, real-threshold probes, exhaustive helper enumeration vs set algebra'


def run(ctx):
    for c in ('differential-cases', 'bulk-calls', 'strategy:full-scan', 'strategy:in-chunks', 'maintenance:import', 'maintenance:delete',
              'real-threshold-requests', 'request-size:9501', 'request-size:951', 'paging-listings', 'paging-no-holes-calls',
              'detect_where_sorted-pairs', 'invalid-input-pairs', 'merge_sorted-pairs', 'chunk_iterator-cases'):
        ctx.require(c)
    n = ctx.pick(240, 6000)
    per = 12
    ctx.map(bulklab.run_differential, [{'seed': ctx.seed * 100003 + i, 'n': per} for i in range(n // per)]
            + [{'kind': 'helpers'}][:0])
    ctx.map(bulklab.run_helpers, [{'universe': 6}])
    ctx.map(bulklab.run_real_thresholds, [{'seed': ctx.seed, 'request_sizes': [0, 1, 949, 950, 951, 1900, 1901, 9499, 9500, 9501, 10200],
                                           'row_counts': [999, 1000, 1001, 2000, 2001]}])


def replay(ctx, rep):
    r = rep['replay']
    if 'differential' in r:
        ctx.map(bulklab.run_differential, [r['differential']])
    elif 'real' in r:
        ctx.map(bulklab.run_real_thresholds, [r['real']])
    else:
        ctx.map(bulklab.run_helpers, [r['helpers']])
