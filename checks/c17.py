"""C17 - an I/O error in the middle of an operation leaves the store intact."""
from vlib import crashchecks

PROPERTY = 'C17'
LEVEL = 'fault_enumeration'
RULE = ('for every operation variant of the C05 table, a dry run lists every I/O-relevant call (open r/w, read, write, flush, truncate, '
        'close, fsync/fcntl, rename/replace/link/unlink/remove/mkdir, os.open, listdir, SQL SELECT/INSERT/UPDATE/DELETE/VACUUM/commit); '
        'for EVERY such call k a child runs the operation with exactly that call raising (EIO/ENOSPC for writes, PermissionError for '
        'rename-family, OperationalError for SQL) instead of being performed; the child records completed/raised and exits; if it completed, a fresh handle must see exactly the fault-free result; the folder is '
        'read raw and through a fresh Container (C05 oracle), then stale *.lock files are removed and the operation is re-run by a new '
        'process: views == model, raw consistency, validate() (interrupted repacks excepted); after a sync or SQL fault the SAME handle first performs one more committing call (an add to a pack or clean_storage), so whatever the failed call left pending in its index session must be harmless. Additionally (E5) a real errno (ENOSPC for write/pwrite64/'
        'ftruncate, EIO otherwise) is injected by strace into the n-th real syscall of an uninstrumented run, so CPython\'s and SQLite\'s own '
        'error handling (SQLITE_FULL, SQLITE_IOERR, rollback) is what is exercised. Distinct = (variant, call index, errno).')
ASSUMPTIONS = ['the injected error replaces the call (nothing of it reaches the disk); partial effects inside one call are syscall-level (thorough E5)',
               'one fault per run']
TECHNIQUE = 'runtime fault injection: one injected OSError/OperationalError at every interposed I/O call of every operation variant + on-disk oracle + successful re-run'
LEVEL_NOTE = 'trusted: the interposition layer (audit-hook guarded); injected errors are raised before the real call'


def run(ctx):
    for c in ('faults-injected', 'oracle-evaluations', 'reruns', 'outcome:raised', 'outcome:completed',
              'interrupted-repacks-not-rerun', 'sys-faults', 'sys-reruns', 'completed-outcomes-verified'):
        ctx.require(c)
    ctx.exhaustive = True
    ctx.map(crashchecks.run_fault_variant, crashchecks.variant_cases(ctx, PROPERTY, 'fault'))
    # real errno injected into the n-th real syscall (strace): CPython's and SQLite's own error paths are exercised
    sys_names = None if not ctx.quick else ['add_object:new@', 'pack_all_loose:yes:clpp=1@', 'clean_storage@']
    ctx.map(crashchecks.run_sys_variant, crashchecks.sys_cases(ctx, PROPERTY, 'sysfault', names=sys_names, limit=ctx.pick(5, 20)))
    ctx.extra['exhaustive_scope'] = 'every interposed I/O call of each listed variant/pre-state pair, one errno class per call kind (quick)'


def replay(ctx, rep):
    r = rep['replay']
    ctx.map(crashchecks.run_fault_variant, [{'prop': PROPERTY, 'variant': r['variant'], 'mode': 'fault', 'name': r['variant']['name']}])
