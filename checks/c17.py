"""C17 - an I/O error in the middle of an operation leaves the store intact."""
from vlib import crashchecks

PROPERTY = 'C17'
LEVEL = 'fault_enumeration'
RULE = ('for every operation variant of the C05 table, a dry run lists every I/O-relevant call (open r/w, read, write, flush, truncate, '
        'close, fsync/fcntl, rename/replace/link/unlink/remove/mkdir, os.open, listdir, SQL SELECT/INSERT/UPDATE/DELETE/VACUUM/commit); '
        'for EVERY such call k a child runs the operation with exactly that call raising (EIO/ENOSPC for writes, PermissionError for '
        'rename-family, OperationalError for SQL) instead of being performed; the child records completed/raised and exits; the folder is '
        'read raw and through a fresh Container (C05 oracle), then stale *.lock files are removed and the operation is re-run by a new '
        'process: views == model, raw consistency, validate() (interrupted repacks excepted). Distinct = (variant, call index, errno).')
ASSUMPTIONS = ['the injected error replaces the call (nothing of it reaches the disk); partial effects inside one call are syscall-level (thorough E5)',
               'one fault per run']
TECHNIQUE = 'runtime fault injection: one injected OSError/OperationalError at every interposed I/O call of every operation variant + on-disk oracle + successful re-run'
LEVEL_NOTE = 'trusted: the interposition layer (audit-hook guarded); injected errors are raised before the real call'


def run(ctx):
    for c in ('faults-injected', 'oracle-evaluations', 'reruns', 'outcome:raised', 'outcome:completed',
              'interrupted-repacks-not-rerun'):
        ctx.require(c)
    ctx.exhaustive = True
    ctx.map(crashchecks.run_fault_variant, crashchecks.variant_cases(ctx, PROPERTY, 'fault'))
    ctx.extra['exhaustive_scope'] = 'every interposed I/O call of each listed variant/pre-state pair, one errno class per call kind (quick)'


def replay(ctx, rep):
    r = rep['replay']
    ctx.map(crashchecks.run_fault_variant, [{'prop': PROPERTY, 'variant': r['variant'], 'mode': 'fault', 'name': r['variant']['name']}])
