"""C18 - bounded resources: no descriptor leaks, one open file, chunked I/O."""
from vlib import histories, resources

PROPERTY = 'C18'
LEVEL = 'exploration'
RULE = ('(a) /proc/self/fd census after every step of seeded API histories and after close(): only packs.idx/-wal/-shm descriptors at '
        'quiescent points (bounded per handle), none after close(), no accumulation over long runs of pack / direct-to-pack calls; '
        '(b) descriptor census inside bulk reads (get_objects_stream_and_meta) at every yielded object: at most one pack-or-loose file '
        'open, plus one loose cache file only while the consumer seeks backwards in a compressed object; LazyOpener inputs open only '
        'while consumed, never two at once; (c) tracemalloc peak of every streaming path for object sizes 1/8/48 MiB: bounded and not '
        'growing with size. Distinct = history signature / (path, size) probe; non-trivial = histories with >= 3 op kinds, every probe.')
ASSUMPTIONS = ['Linux /proc/self/fd is the census', 'memory bound: peak < 6 MiB and growth between the smallest and largest probed object < 2 MiB (chunk sizes are 64-512 KiB; measured < 2.1 MiB / < 0.4 MiB)',
               'object sizes up to 48 MiB']
TECHNIQUE = 'runtime monitoring: /proc/self/fd census at quiescent points and inside bulk reads; tracemalloc peaks vs object size'
MONITORS = ['census']


def cases(ctx):
    n = ctx.pick(120, 3000)
    return [{'prop': PROPERTY, 'seed': ctx.seed * 1000003 + i, 'monitors': MONITORS, 'steps': (8, 30),
             'gen': {'big_p': 0.0, 'chunk_p': 0.05}} for i in range(n)]


def run(ctx):
    for c in ('census-quiescent', 'census-after-close', 'bulk-read-census-points', 'lazy-opener-census-points',
              'memory-probes', 'memory-probes-highly-compressible', 'long-run-calls'):
        ctx.require(c)
    ctx.map(histories.run_history, cases(ctx))
    ctx.map(resources.run_probe, resources.probe_cases(ctx))


def replay(ctx, rep):
    r = rep['replay']
    if 'probe' in r:
        ctx.map(resources.run_probe, [r['probe']])
    else:
        ctx.map(histories.run_history, [{'prop': PROPERTY, 'seed': r.get('case_seed', 0), 'cfg': r['cfg'], 'ops': r['ops'],
                                         'monitors': MONITORS}])
