#!/bin/sh
# Offline setup: nothing to build - the framework is pure Python on /venv (the repository's interpreter).
set -e
/venv/bin/python -c "import disk_objectstore, sqlalchemy, sqlite3, zlib; print('disk_objectstore from', disk_objectstore.__file__)"
command -v rsync >/dev/null && echo "rsync present" || echo "rsync missing (C15 would be inconclusive)"
command -v strace >/dev/null && echo "strace present" || echo "strace missing (syscall tier would be inconclusive)"
mkdir -p evidence replays
