#!/venv/bin/python
"""Run the repository's own test suite (guard off) and compare with /root/.vp/BASELINE.json stable_pass."""
import json
import os
import subprocess
import sys
import tempfile
import xml.etree.ElementTree as ET

base = json.load(open('/root/.vp/BASELINE.json'))
want = set(base['stable_pass'])
with tempfile.TemporaryDirectory() as tmp:
    out = os.path.join(tmp, 'j.xml')
    env = {k: v for k, v in os.environ.items() if k != 'DISK_OBJECTSTORE_VERIF'}
    cmd = ['/venv/bin/python', '-m', 'pytest', '-q', '-p', 'no:cacheprovider', '--timeout=900',
           '--continue-on-collection-errors', f'--junitxml={out}'] + sys.argv[1:]
    subprocess.run(cmd, cwd='/repo', env=env, stdout=subprocess.DEVNULL, stderr=subprocess.DEVNULL, check=False)
    passed = set()
    for tc in ET.parse(out).getroot().iter('testcase'):
        name = f"{tc.get('classname')}::{tc.get('name')}"
        if not any(ch.tag in ('failure', 'error', 'skipped') for ch in tc):
            passed.add(name)
missing = sorted(want - passed)
print(f'stable_pass={len(want)} passed_now={len(passed)} missing={len(missing)}')
for m in missing[:30]:
    print('  NOT PASSING:', m)
sys.exit(1 if missing else 0)
