#!/venv/bin/python
"""Confirm a sub-agent's seeded change in a scratch worktree and keep it under seeded/<id>/.

    tools/confirm_seed.py /tmp/wt/out/C06/a C06 a "what it needs to manifest"
Checks: patch applies to the unchanged tree; library imports; the repository's stable tests still pass with it; the
demonstration exits 1 with the change and 0 without it.
"""
import json
import os
import shutil
import subprocess
import sys
import tempfile
import xml.etree.ElementTree as ET

HERE = os.path.dirname(os.path.dirname(os.path.abspath(__file__)))
WT = os.environ.get('VERIF_CONFIRM_WT', '/tmp/wt/confirm')


def sh(*a, **k):
    return subprocess.run(list(a), capture_output=True, text=True, **k)


def main():
    src, prop, label = sys.argv[1], sys.argv[2], sys.argv[3]
    needs = sys.argv[4] if len(sys.argv) > 4 else ''
    if not os.path.isdir(WT):
        sh('git', '-C', '/repo', 'worktree', 'add', '--detach', WT, 'HEAD')
    sh('git', '-C', WT, 'checkout', '--', '.')
    sh('git', '-C', WT, 'checkout', '--detach', sh('git', '-C', '/repo', 'rev-parse', 'HEAD').stdout.strip())
    patch = os.path.join(src, 'patch.diff')
    demo = os.path.join(src, 'demo.py')
    report = {'property': prop, 'label': label}
    r = sh('git', '-C', WT, 'apply', patch)
    if r.returncode:
        print('patch does not apply', r.stderr[-300:])
        return 1
    try:
        base = json.load(open('/root/.vp/BASELINE.json'))
        want = set(base['stable_pass'])
        with tempfile.TemporaryDirectory() as tmp:
            out = os.path.join(tmp, 'j.xml')
            subprocess.run(['/venv/bin/python', '-m', 'pytest', '-q', '-p', 'no:cacheprovider', '--timeout=900', '-n', '6',
                            '--continue-on-collection-errors', f'--junitxml={out}'], cwd=WT, stdout=subprocess.DEVNULL,
                           stderr=subprocess.DEVNULL, check=False)
            passed = set()
            for tc in ET.parse(out).getroot().iter('testcase'):
                if not any(ch.tag in ('failure', 'error', 'skipped') for ch in tc):
                    passed.add(f"{tc.get('classname')}::{tc.get('name')}")
        missing = sorted(want - passed)
        report['tests_with_change'] = f'{len(passed)} passed; stable tests not passing: {missing[:5]}'
        d1 = sh('/venv/bin/python', demo, WT, timeout=600)
        report['demo_with_change_exit'] = d1.returncode
        report['demo_with_change_tail'] = (d1.stdout + d1.stderr)[-300:]
    finally:
        sh('git', '-C', WT, 'checkout', '--', '.')
    d0 = sh('/venv/bin/python', demo, '/repo', timeout=600)
    report['demo_without_change_exit'] = d0.returncode
    ok = not missing and d1.returncode == 1 and d0.returncode == 0
    report['confirmed'] = ok
    print(json.dumps(report, indent=1))
    if ok:
        dst = os.path.join(HERE, 'seeded', f'{prop}-{label}')
        os.makedirs(dst, exist_ok=True)
        shutil.copy(patch, os.path.join(dst, 'patch.diff'))
        shutil.copy(demo, os.path.join(dst, 'demo.py'))
        if os.path.exists(os.path.join(src, 'notes.md')):
            shutil.copy(os.path.join(src, 'notes.md'), os.path.join(dst, 'notes.md'))
        meta = {'property': prop, 'source': 'independent sub-agent given only the property text and a scratch worktree',
                'needs_to_manifest': needs, 'run_checks': [prop],
                'confirmed_by': {'tests': report['tests_with_change'], 'demo_exit_with_change': d1.returncode,
                                 'demo_exit_without_change': d0.returncode,
                                 'commands': [f'git apply patch.diff (scratch worktree of /repo HEAD)', 'pytest (stable_pass of BASELINE.json all passing)',
                                              'python demo.py <worktree> -> 1', 'python demo.py /repo -> 0']}}
        with open(os.path.join(dst, 'meta.json'), 'w', encoding='utf8') as fh:
            json.dump(meta, fh, indent=1)
    return 0 if ok else 1


if __name__ == '__main__':
    sys.exit(main())
