#!/venv/bin/python
"""Regenerate MANIFEST.json from the check modules (checks/cNN.py) - run after adding/changing a check."""
import importlib
import json
import os
import sys

HERE = os.path.dirname(os.path.dirname(os.path.abspath(__file__)))
sys.path.insert(0, HERE)
sys.dont_write_bytecode = True

ALL = [f'C{i:02d}' for i in range(1, 19)]
NOT_APPLICABLE = {}  # property id -> reason (for properties without a check module)

checks, na = [], []
for pid in ALL:
    path = os.path.join(HERE, 'checks', f'{pid.lower()}.py')
    if not os.path.exists(path):
        na.append({'property_id': pid, 'reason': NOT_APPLICABLE.get(pid, 'check not built yet (work in progress); no claim is made')})
        continue
    mod = importlib.import_module(f'checks.{pid.lower()}')
    entry = {
        'property_id': pid,
        'quick_cmd': f'./vcheck {pid} --tier quick',
        'thorough_cmd': f'./vcheck {pid} --tier thorough',
        'evidence_file': f'evidence/{pid}.json',
        'replay_cmd_template': f'./vcheck {pid} --replay {{path}}',
        'engine': getattr(mod, 'ENGINE', 'vlib'),
        'level_claimed': {
            'category': mod.LEVEL,
            'text': getattr(mod, 'LEVEL_TEXT', mod.RULE),
            'design_ref': getattr(mod, 'DESIGN_REF', f'DESIGN.md section 3, {pid}'),
        },
        'level_note': getattr(mod, 'LEVEL_NOTE', '; '.join(getattr(mod, 'ASSUMPTIONS', [])) or 'see DESIGN.md'),
        'technique': getattr(mod, 'TECHNIQUE', 'runtime monitoring: generated workloads on the real code with an oracle per step'),
    }
    checks.append(entry)

manifest = {
    'version': 1,
    'setup_cmd': './setup.sh',
    'hooks': {
        'guard': 'DISK_OBJECTSTORE_VERIF',
        'enable': 'no source hooks exist: every observation point is reached by interposition from the harness '
                  '(builtins.open/os.*/fcntl/SQLAlchemy events patched in the check process); checks import /repo\'s '
                  'working tree directly (editable install)',
        'baseline_off_cmd': 'cd /repo && /venv/bin/python -m pytest -ra -q -p no:cacheprovider --timeout=900 '
                            '--continue-on-collection-errors',
        'source_commits': [],
        'add_only': True,
    },
    'engines': [
        {'name': 'E1 iotrace', 'path': 'vlib/iotrace.py', 'serves_properties': ['C04', 'C05', 'C06', 'C11', 'C13', 'C15', 'C17'],
         'kind_free_text': 'in-process interposition of builtins.open/io.open, os.*, fcntl.fcntl and SQLAlchemy engine events with plans: record, crash@k (os._exit), fault@k, probe@k, yield; audit-hook blind-spot guard'},
        {'name': 'E2 model/rawread/histories', 'path': 'vlib/model.py, vlib/rawread.py, vlib/histories.py, vlib/gen.py',
         'serves_properties': ['C01', 'C02', 'C03', 'C09', 'C12', 'C13', 'C18'],
         'kind_free_text': 'reference model (dict key->bytes), library-independent raw reader (sqlite3+slice+zlib), seeded API-history generator/runner with per-step monitors'},
        {'name': 'E3 sched', 'path': 'vlib/sched.py', 'serves_properties': ['C04', 'C15'],
         'kind_free_text': 'deterministic scheduler: actors are threads of which one runs at a time, switch points at every interposed I/O event; scripted, random and PCT pickers; replayable picks'},
        {'name': 'E4 crashlab', 'path': 'vlib/crashlab.py, vlib/crashchecks.py, vlib/variants.py', 'serves_properties': ['C05', 'C06', 'C17'],
         'kind_free_text': 'fork-per-case kill / power-loss image / single-fault enumeration at every Python-level I/O boundary of an operation-variant table'},
        {'name': 'E5 sysinject', 'path': 'vlib/sysinject.py, vlib/sysinject_child.py', 'serves_properties': ['C05', 'C06', 'C17'],
         'kind_free_text': 'strace attach to an uninstrumented interpreter: kill / errno injection at the n-th real syscall, offline ordering checker over the syscall log (WAL commit frames parsed from pwrite64 payloads)'},
        {'name': 'E6 streamlab', 'path': 'vlib/streamlab.py, vlib/streamlab_o.py', 'serves_properties': ['C07'],
         'kind_free_text': 'stream programs in lock-step against a position/contents model, with and without asserts (python -O)'},
        {'name': 'E7 census/resources', 'path': 'vlib/census.py, vlib/resources.py', 'serves_properties': ['C18'],
         'kind_free_text': '/proc/self/fd census at quiescent points and inside bulk reads; tracemalloc peaks vs object size'},
        {'name': 'labs', 'path': 'vlib/conclab.py, vlib/multihandle.py, vlib/backuplab.py, vlib/importlab.py, vlib/complab.py, vlib/dellab.py, vlib/damagelab.py, vlib/bulklab.py, vlib/roundtrip.py',
         'serves_properties': ['C01', 'C04', 'C08', 'C10', 'C11', 'C12', 'C14', 'C15', 'C16'],
         'kind_free_text': 'property-specific workload generators and oracles built on E1-E3'},
    ],
    'checks': checks,
    'not_applicable': na,
    'notes': 'Technique family: runtime monitoring. Exit codes: 0 held, 1 violation (VIOLATION line + replay file), '
             '2 inconclusive (monitor not reached / watchdog / missing tool). known_findings.txt lists fixed and open findings.',
}
extra = os.path.join(HERE, 'tools', 'engines.json')
if os.path.exists(extra):
    manifest['engines'] = json.load(open(extra))
with open(os.path.join(HERE, 'MANIFEST.json'), 'w', encoding='utf8') as fh:
    json.dump(manifest, fh, indent=1)
print(f'{len(checks)} checks, {len(na)} not_applicable')
