#!/venv/bin/python
"""Mutation self-test: apply each mutants/*.patch to a scratch worktree of /repo (never to /repo itself), point the checks at it
through VERIF_REPO and report which checks fire.   tools/selftest.py [substring ...] [--tier thorough] [--props C04,C05]"""
import glob
import json
import os
import re
import subprocess
import sys
import time

HERE = os.path.dirname(os.path.dirname(os.path.abspath(__file__)))
WT = os.environ.get('VERIF_MUTANT_WT', '/tmp/wt/mine')


def sh(*a, **k):
    return subprocess.run(list(a), capture_output=True, text=True, **k)


def main():
    args = sys.argv[1:]
    tier = 'quick'
    props_override = None
    if '--tier' in args:
        i = args.index('--tier'); tier = args[i + 1]; del args[i:i + 2]
    if '--props' in args:
        i = args.index('--props'); props_override = args[i + 1].split(','); del args[i:i + 2]
    if not os.path.isdir(WT):
        sh('git', '-C', '/repo', 'worktree', 'add', '--detach', WT, 'HEAD')
    sh('git', '-C', WT, 'checkout', '--', '.')
    sh('git', '-C', WT, 'checkout', '--detach', sh('git', '-C', '/repo', 'rev-parse', 'HEAD').stdout.strip())
    results = {}
    extra = []
    while '--patch' in args:
        i = args.index('--patch'); extra.append(os.path.abspath(args[i + 1])); del args[i:i + 2]
    for patch in extra:
        r = sh('git', '-C', WT, 'apply', patch)
        if r.returncode:
            print(f'{patch}: patch does not apply: {r.stderr[-200:]}')
            continue
        try:
            for prop in props_override or []:
                t0 = time.time()
                env = {**os.environ, 'VERIF_REPO': WT, 'VERIF_EVIDENCE_DIR': '/tmp/verif-mutant-evidence'}
                p = sh(os.path.join(HERE, 'vcheck'), prop, '--tier', tier, cwd=HERE, env=env)
                verdict = {0: 'HELD', 1: 'VIOLATION', 2: 'INCONCLUSIVE'}.get(p.returncode, f'rc{p.returncode}')
                mechs = sorted({ln.split('mechanism=')[1].split(' ::')[0] for ln in p.stdout.splitlines() if 'mechanism=' in ln})
                print(f'{patch[-40:]:52s} {prop} {verdict:12s} {time.time() - t0:6.1f}s {mechs[:3]}', flush=True)
        finally:
            sh('git', '-C', WT, 'checkout', '--', '.')
    if extra:
        return 0
    for patch in sorted(glob.glob(os.path.join(HERE, 'mutants', '*.patch')) + glob.glob(os.path.join(HERE, 'seeded', '*', 'patch.diff'))):
        name = os.path.basename(patch)[:-6] if patch.endswith('.patch') else 'seeded/' + os.path.basename(os.path.dirname(patch))
        if args and not any(a in name for a in args):
            continue
        hdr = ''
        if patch.endswith('.patch'):
            hdr = open(patch[:-6] + '.txt').read()
            targets = re.findall(r'C\d\d', hdr.split('|')[0])
        else:
            meta = json.load(open(os.path.join(os.path.dirname(patch), 'meta.json')))
            targets = meta.get('run_checks') or [meta['property']]
        targets = props_override or targets
        r = sh('git', '-C', WT, 'apply', patch)
        if r.returncode:
            print(f'{name}: patch does not apply: {r.stderr[-200:]}')
            continue
        try:
            for prop in targets:
                t0 = time.time()
                env = {**os.environ, 'VERIF_REPO': WT, 'VERIF_EVIDENCE_DIR': '/tmp/verif-mutant-evidence'}
                p = sh(os.path.join(HERE, 'vcheck'), prop, '--tier', tier, cwd=HERE, env=env)
                verdict = {0: 'HELD', 1: 'VIOLATION', 2: 'INCONCLUSIVE'}.get(p.returncode, f'rc{p.returncode}')
                mechs = sorted({ln.split('mechanism=')[1].split(' ::')[0] for ln in p.stdout.splitlines() if 'mechanism=' in ln})
                results[f'{name}:{prop}'] = verdict
                extra = ''
                if verdict == 'INCONCLUSIVE':
                    extra = next((ln for ln in p.stdout.splitlines() if ln.startswith('INCONCLUSIVE')), '')[:300]
                print(f'{name:52s} {prop} {verdict:12s} {time.time() - t0:6.1f}s {mechs[:3]} {extra}', flush=True)
        finally:
            sh('git', '-C', WT, 'checkout', '--', '.')
    return 0


if __name__ == '__main__':
    sys.exit(main())
