#!/venv/bin/python
"""Apply a patch to /repo, run the given checks (quick by default), ALWAYS revert, print one line per check.

    tools/try_patch.py <patch.diff> C04 C05 ... [--tier thorough] [--seed N]

/repo must be clean before; it is restored with `git checkout -- .` afterwards (also on error / Ctrl-C).
"""
import json
import os
import subprocess
import sys
import time

HERE = os.path.dirname(os.path.dirname(os.path.abspath(__file__)))


def main():
    args = sys.argv[1:]
    tier, seed = 'quick', '0'
    if '--tier' in args:
        i = args.index('--tier')
        tier = args[i + 1]
        del args[i:i + 2]
    if '--seed' in args:
        i = args.index('--seed')
        seed = args[i + 1]
        del args[i:i + 2]
    patch, props = os.path.abspath(args[0]), args[1:]
    if subprocess.run(['git', '-C', '/repo', 'status', '--porcelain', '--untracked-files=no'], capture_output=True, text=True).stdout.strip():
        print('refusing: /repo has uncommitted changes')
        return 2
    res = subprocess.run(['git', '-C', '/repo', 'apply', patch], capture_output=True, text=True)
    if res.returncode != 0:
        print('patch does not apply:', res.stderr[-400:])
        return 2
    out = {}
    try:
        for prop in props:
            t0 = time.time()
            proc = subprocess.run([os.path.join(HERE, 'vcheck'), prop, '--tier', tier, '--seed', seed], capture_output=True, text=True,
                                  cwd=HERE, env={**os.environ, 'VERIF_EVIDENCE_DIR': '/tmp/verif-mutant-evidence'})
            mechs = sorted({ln.split('mechanism=')[1].split(' ::')[0] for ln in proc.stdout.splitlines() if 'mechanism=' in ln})
            verdict = {0: 'HELD', 1: 'VIOLATION', 2: 'INCONCLUSIVE'}.get(proc.returncode, f'rc={proc.returncode}')
            first = next((ln for ln in proc.stdout.splitlines() if 'mechanism=' in ln), '')
            out[prop] = {'verdict': verdict, 'mechanisms': mechs[:8], 'wall_s': round(time.time() - t0, 1), 'first': first.strip()[:400]}
            if verdict == 'INCONCLUSIVE':
                out[prop]['reason'] = next((ln for ln in proc.stdout.splitlines() if ln.startswith('INCONCLUSIVE')), '')[:400]
            print(f'{prop}: {verdict} ({out[prop]["wall_s"]}s) {mechs[:4]}', flush=True)
    finally:
        subprocess.run(['git', '-C', '/repo', 'checkout', '--', '.'], check=False)
    print(json.dumps(out))
    return 0


if __name__ == '__main__':
    sys.exit(main())
