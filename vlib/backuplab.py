"""C15 lab: a real backup (real rsync) runs while a mutator actor is advanced to chosen I/O boundaries at the
backup's phase boundaries; the finished backup is opened as a container and judged."""
from __future__ import annotations

import hashlib
import os
import random
import shutil
import time
from collections import Counter
from pathlib import Path

from . import common, gen, iotrace, sched

NPOINTS = 6  # before:0 .. before:4, after:4   (calls: rsync loose, sqlite dump, rsync dump, rsync packs, rsync rest)


def rsync_available():
    return shutil.which('rsync') is not None


class PhaseHooks:
    """Wrap BackupManager.call_rsync and backup_utils._sqlite_backup so that phase boundaries are scheduler points."""

    def __init__(self, scheduler_ref):
        from disk_objectstore import backup_utils  # pylint: disable=import-outside-toplevel

        self.bu = backup_utils
        self.ref = scheduler_ref
        self.orig_rsync = backup_utils.BackupManager.call_rsync
        self.orig_dump = backup_utils._sqlite_backup  # pylint: disable=protected-access
        self.n = 0
        self.calls = []
        self.during = set()  # call indices whose transfer overlaps the client (plans with a ('during', p) cut)

    def install(self):
        hooks = self

        def call_rsync(mgr, *args, **kwargs):
            hooks.point('rsync')
            if hooks.n in hooks.during:
                # "inside" a copy phase: the real rsync runs in a helper thread while the backup actor yields, so the client's
                # events really overlap the transfer (timing-dependent by nature; thorough tier only)
                import threading  # pylint: disable=import-outside-toplevel

                box = {}

                def transfer():
                    try:
                        with iotrace.passthrough():
                            box['out'] = hooks.orig_rsync(mgr, *args, **kwargs)
                    except BaseException as exc:  # noqa: BLE001
                        box['exc'] = exc

                helper = threading.Thread(target=transfer, daemon=True)
                helper.start()
                s = hooks.ref.get('sched')
                if s is not None and iotrace.get_actor() == 'B':
                    s.point(f'during:{hooks.n}')
                helper.join()
                hooks.after()
                if 'exc' in box:
                    raise box['exc']
                return box.get('out')
            with iotrace.passthrough():
                out = hooks.orig_rsync(mgr, *args, **kwargs)
            hooks.after()
            return out

        def dump(src, dst):
            hooks.point('sqlite-dump')
            with iotrace.passthrough():
                out = hooks.orig_dump(src, dst)
            hooks.after()
            return out

        self.bu.BackupManager.call_rsync = call_rsync
        self.bu._sqlite_backup = dump  # pylint: disable=protected-access

    def uninstall(self):
        self.bu.BackupManager.call_rsync = self.orig_rsync
        self.bu._sqlite_backup = self.orig_dump  # pylint: disable=protected-access

    def point(self, what):
        self.calls.append(what)
        s = self.ref.get('sched')
        if s is not None and iotrace.get_actor() == 'B':
            s.point(f'before:{self.n}')

    def after(self):
        self.n += 1
        if self.n == 5:
            s = self.ref.get('sched')
            if s is not None and iotrace.get_actor() == 'B':
                s.point('after:4')


def mutator_ops(rnd):
    """A short maintenance/write sequence executed by the concurrent client."""
    ops = []
    for _ in range(rnd.randint(1, 3)):
        ops.append(('add', rnd.randint(1, 3)))
    ops.append(('pack', rnd.choice(['no', 'yes']), rnd.random() < 0.5, rnd.random() < 0.7))  # (mode, clean_loose_per_pack, do_fsync)
    if rnd.random() < 0.8:
        ops.append(('clean',))
    if rnd.random() < 0.5:
        ops.append(('direct', rnd.randint(1, 2), rnd.random() < 0.5))
    if rnd.random() < 0.4:
        ops.append(('add', 1))
        ops.append(('pack', 'no', True))
        ops.append(('clean',))
    return ops


class Site:
    def __init__(self, base, seed, pack_target, reader=False):
        from disk_objectstore import Container  # pylint: disable=import-outside-toplevel

        self.Container = Container
        self.base = base
        self.root = os.path.join(base, 'c')
        self.dest = os.path.join(base, 'backups')
        self.acked = {}
        self.n = seed * 1000
        cont = Container(self.root)
        cont.init_container(clear=True, pack_size_target=pack_target)
        rnd = random.Random(seed)
        datas = [self.new() for _ in range(rnd.randint(2, 5))]
        for k, d in zip(cont.add_objects_to_pack(datas, compress=rnd.random() < 0.5), datas):
            self.acked[k] = d
        for _ in range(rnd.randint(2, 6)):
            d = self.new()
            self.acked[cont.add_object(d)] = d
        if rnd.random() < 0.5:
            cont.pack_all_loose()
            for _ in range(rnd.randint(1, 3)):
                d = self.new()
                self.acked[cont.add_object(d)] = d
        cont.close()
        # a long-lived reader: it read a packed object once and keeps its handle (and index connection) open all along, as
        # any application does; with it no client ever is "the last connection", so SQLite never checkpoints the WAL
        self.reader = None
        if reader:
            self.reader = Container(self.root)
            self.reader.get_object_content(next(iter(self.acked)))

    def close_reader(self):
        if self.reader is not None:
            self.reader.close()
            self.reader = None

    def new(self):
        self.n += 1
        return gen.content(['text', 200 + (self.n * 37) % 1500, self.n])

    def mutate(self, ops, hold=None):
        """Run the client's operations; ``hold()`` keeps the client's handle open (a long-lived client) afterwards."""
        cont = self.Container(self.root)
        try:
            self._mutate(cont, ops)
            if hold is not None:
                hold()
        finally:
            cont.close()

    def _mutate(self, cont, ops):
        if True:
            for op in ops:
                if op[0] == 'add':
                    for _ in range(op[1]):
                        d = self.new()
                        self.acked[cont.add_object(d)] = d
                elif op[0] == 'pack':
                    cont.pack_all_loose(compress=op[1] == 'yes', clean_loose_per_pack=op[2], do_fsync=op[3] if len(op) > 3 else True)
                elif op[0] == 'clean':
                    cont.clean_storage()
                elif op[0] == 'direct':
                    ds = [self.new() for _ in range(op[1])]
                    for k, d in zip(cont.add_objects_to_pack(ds, compress=op[2]), ds):
                        self.acked[k] = d


def judge(site, backup_dir, at_start, tag):
    """Open the finished backup as a container."""
    probs = []
    cont = site.Container(backup_dir)
    try:
        try:
            listed = list(cont.list_all_objects())
        except Exception as exc:  # noqa: BLE001
            return [('backup:unusable', f'{tag}: the backup cannot even be listed: {exc!r}')]
        for k, d in at_start.items():
            try:
                got = cont.get_object_content(k)
            except Exception as exc:  # noqa: BLE001
                probs.append(('backup:object-missing', f'{tag}: object {k[:10]} existed when the backup started but reading it from the backup gives {exc!r}'))
                continue
            if got != d:
                probs.append(('backup:object-wrong-bytes', f'{tag}: object {k[:10]} reads back as {len(got)} bytes from the backup, stored {len(d)}'))
        for k in listed:
            try:
                got = cont.get_object_content(k)
            except Exception as exc:  # noqa: BLE001
                probs.append(('backup:listed-key-unreadable', f'{tag}: listed key {k[:10]} cannot be read: {exc!r}'))
                continue
            if hashlib.sha256(got).hexdigest() != k:
                probs.append(('backup:listed-key-wrong-bytes', f'{tag}: listed key {k[:10]} reads back as {len(got)} bytes that do not hash to it'))
        try:
            rep = cont.validate()
            if not rep.is_valid():
                probs.append(('backup:validate', f'{tag}: validate() on the backup reports {rep}'))
        except Exception as exc:  # noqa: BLE001
            probs.append(('backup:validate', f'{tag}: validate() on the backup raised {exc!r}'))
    finally:
        cont.close()
    return probs


def take_previous(site, counters):
    """A previous, undisturbed backup (the next one is incremental on top of it through rsync --link-dest)."""
    from disk_objectstore import backup_utils  # pylint: disable=import-outside-toplevel

    manager = backup_utils.BackupManager(site.dest)
    cont0 = site.Container(site.root)
    manager.backup_auto_folders(lambda path, prev: backup_utils.backup_container(manager, cont0, path, prev))
    cont0.close()
    site.previous_taken = True
    counters['previous-backups-taken'] += 1


def one_backup(site, plan, mut_ops, incremental, counters):
    """plan: list of (point_index, n_events) - advance the mutator by n events when the backup is parked at that point.
    Returns (problems, info)."""
    from disk_objectstore import backup_utils  # pylint: disable=import-outside-toplevel

    ref = {}
    hooks = PhaseHooks(ref)
    box = {'error': None, 'dir': None, 'at_start': None, 'bdone': False}
    manager = backup_utils.BackupManager(site.dest)
    if incremental and not getattr(site, 'previous_taken', False):
        take_previous(site, counters)
        time.sleep(1.1)

    def backup():
        cont = site.Container(site.root)
        box['at_start'] = dict(site.acked)
        try:
            manager.backup_auto_folders(lambda path, prev: backup_utils.backup_container(manager, cont, path, prev))
            box['dir'] = str(Path(site.dest) / 'last-backup')
        except backup_utils.BackupError as exc:
            box['error'] = exc
        finally:
            cont.close()
            box['bdone'] = True

    def mutator():
        def hold():  # the concurrent client is long-lived: it keeps its handle (and index connection) open until the backup is over
            while not box['bdone']:
                ref['sched'].point('idle')

        site.mutate(mut_ops, hold=hold)

    segments = []
    for point, n in plan:
        if isinstance(point, str):  # 'during:<call index>': the client runs while that transfer is in progress
            label = point
            hooks.during.add(int(point.split(':')[1]))
        else:
            label = f'before:{point}' if point < 5 else 'after:4'
        segments.append(('B', 'until', label))
        segments.append(('M', n + 1))  # n events executed: the (n+1)-th pick parks the client right before its next event
    segments.append(('B', None))
    segments.append(('M', None))
    hooks.install()
    try:
        s = sched.Scheduler(sched.script_picker(segments), watchdog_s=120.0)
        ref['sched'] = s
        s.add('B', backup)
        s.add('M', mutator)
        iotrace.install([site.root], plan=s._on_event, audit=False)  # pylint: disable=protected-access
        try:
            s.run()
        finally:
            iotrace.uninstall()
    finally:
        hooks.uninstall()
    probs = []
    for name, (exc, tb) in s.errors().items():
        probs.append((f'backup:actor-crashed:{name}', f'{name} raised {exc!r} :: {tb[-300:]}'))
    m_events = sum(1 for a, _l in s.trace if a == 'M')
    bdone = next((i for i, (a, l) in enumerate(s.trace) if a == 'B' and l == 'done'), len(s.trace))
    bstart = next((i for i, (a, l) in enumerate(s.trace) if a == 'B' and l == 'point:before:0'), 0)
    counters['client-events-executed-while-the-backup-was-in-progress'] += sum(
        1 for a, l in s.trace[bstart:bdone] if a == 'M' and l != 'point:idle')
    info = {'mutator_events': m_events, 'trace': [f'{a}:{l}' for a, l in s.trace if a == 'B' or l == 'done'][:40]}
    if box['error'] is not None:
        counters['backups-failed-loudly'] += 1
        return probs, info
    if box['dir'] is None:
        return probs, info
    counters['backups-completed'] += 1
    tag = f'plan {plan} mutator {mut_ops}'
    probs += judge(site, os.path.realpath(box['dir']), box['at_start'], tag)
    return probs, info


def run_cases(case):  # noqa: C901
    """Worker: enumerate placements for one generated (site, mutator) pair."""
    if not rsync_available():
        return common.case_result('no-rsync', False, inconclusive='rsync is not installed')
    rnd = random.Random(f'backup-{case["seed"]}')
    base = common.mkscratch('bk-')
    counters, vios, seen = Counter(), [], set()
    sample = None
    inconclusive = None
    try:
        seed = case['seed']
        target = case.get('target') or rnd.choice([600, 4 * 1024 ** 3])
        mut_ops = case.get('mut_ops') or mutator_ops(rnd)
        incremental = case.get('incremental', rnd.random() < 0.3)
        reader = case.get('reader', rnd.random() < 0.5)
        # count the mutator's boundaries once (no backup running)
        probe_site = Site(os.path.join(base, 'probe'), seed, target)
        rec = iotrace.Recorder()
        iotrace.install([probe_site.root], plan=rec, audit=False)
        try:
            probe_site.mutate([tuple(o) for o in mut_ops])
        finally:
            iotrace.uninstall()
        K = len(rec.events)  # noqa: N806
        common.rmtree(probe_site.base)
        plans = []
        if case.get('plans'):
            plans = [[tuple(x) for x in p] for p in case['plans']]
        else:
            for p in range(NPOINTS):
                plans.append([(p, K + 5)])  # the whole mutator at phase boundary p
            # boundaries right after an index commit / right after a pack was closed / right before the first loose unlink:
            # the states in which the live index, its side files and the packs disagree the most
            special = set()
            for i, ev in enumerate(rec.events):
                if ev.kind == 'sql:commit':
                    special.add(i + 1)
                    special.add(i)
                if ev.kind == 'close-w' and ev.cls == 'packs':
                    special.add(i + 1)
                if ev.kind in ('remove', 'unlink') and ev.cls == 'loose' and (i == 0 or rec.events[i - 1].kind not in ('remove', 'unlink')):
                    special.add(i)
            special = sorted(k for k in special if 0 < k < K)
            ks = sorted(rnd.sample(range(1, K), min(case.get('nk', 4), K - 1)))
            for p in range(NPOINTS):
                for k in special:
                    if rnd.random() < case.get('special_p', 0.6):
                        plans.append([(p, k)])
                        counters['placements-right-after-a-commit-or-pack-close'] += 1
                for k in ks:
                    if rnd.random() < case.get('pair_p', 0.5):
                        plans.append([(p, k)])  # first k events at p, the rest after the backup
            for call in case.get('during', []):  # overlap the client with the transfer itself (loose copy, packs copy, final copy)
                for k in special + ks:
                    plans.append([(f'during:{call}', k)])
                plans.append([(f'during:{call}', K + 5)])
                counters['placements-inside-a-transfer'] += len(special + ks) + 1
            for _ in range(case.get('ntriples', 3)):
                p1 = rnd.randrange(NPOINTS - 1)
                p2 = rnd.randrange(p1 + 1, NPOINTS)
                k1 = rnd.randrange(1, K)
                plans.append([(p1, k1), (p2, rnd.choice([rnd.randrange(1, K), K + 5]))])
        # build every site first and take the previous backups, then let real time pass ONCE: rsync's quick check compares size and
        # whole-second mtime, so an incremental backup must not start in the same second as the previous one (test artefact otherwise)
        sites = []
        for i, plan in enumerate(plans):
            site = Site(os.path.join(base, f's{i}'), seed, target, reader=reader)
            if reader:
                counters['sites-with-a-long-lived-reader'] += 1
            if incremental:
                take_previous(site, counters)
            sites.append(site)
        if incremental:
            time.sleep(1.2)
        for i, plan in enumerate(plans):
            site = sites[i]
            try:
                probs, info = one_backup(site, plan, [tuple(o) for o in mut_ops], incremental, counters)
            except sched.Deadlock as exc:
                inconclusive = f'watchdog: {exc}'
                break
            counters['backups'] += 1
            counters[f'placement-at-point:{plan[0][0]}'] += 1  # (or 'during:<n>')
            seen.add(common.digest([plan, mut_ops, target, incremental]))
            for mech, msg in probs[:2]:
                vios.append(common.violation(mech, msg, {'backup': {'seed': seed, 'target': target, 'mut_ops': mut_ops, 'reader': reader,
                                                                      'incremental': incremental, 'plans': [plan]}}))
            if sample is None and len(plan) > 1:
                sample = {'plan': plan, 'mutator': mut_ops, 'mutator_boundaries': K, 'incremental': incremental, 'backup_trace': info['trace']}
            site.close_reader()
            common.rmtree(site.base)
            if len(vios) >= 6:
                break
        res = common.case_result(sig=f'bk{seed}', nontrivial=True, counters=counters, violations=vios, sample=sample,
                                 inconclusive=inconclusive)
        res['distinct'] = len(seen)
        res['evaluations'] = max(1, counters['backups'])
        return res
    finally:
        iotrace.uninstall()
        common.rmtree(base)


run_cases.case_timeout = 1500
