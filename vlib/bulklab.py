"""C16: bulk operations vs single-key operations, across internal lookup strategies and batch sizes; merge helpers."""
from __future__ import annotations

import hashlib
import itertools
import os
import random
from collections import Counter

from . import common, gen, rawread


def _H(d, t='sha256'):  # noqa: N802
    return hashlib.new(t, d).hexdigest()


def build(root, rnd, n, pack_target=4 * 1024 ** 3):
    """n small objects: a third loose only, a third packed only, a third both; returns model."""
    from disk_objectstore import Container  # pylint: disable=import-outside-toplevel

    cont = Container(root)
    cont.init_container(clear=True, pack_size_target=pack_target)
    datas = [b'obj-%d-%d' % (i, rnd.randrange(1 << 30)) for i in range(n)]
    third = n // 3
    model = {}
    both = datas[:third]
    for d in both:
        model[cont.add_object(d)] = d
    cont.pack_all_loose()  # both forms (no clean)
    packed = datas[third:2 * third]
    for k, d in zip(cont.add_objects_to_pack(packed, compress=rnd.random() < 0.5), packed):
        model[k] = d
    for d in datas[2 * third:]:
        model[cont.add_object(d)] = d
    cont.close()
    return model


def single_key_reference(cont, keys):
    """What the single-key operations answer for each distinct key."""
    from disk_objectstore.exceptions import NotExistent  # pylint: disable=import-outside-toplevel

    ref = {}
    for k in dict.fromkeys(keys):
        try:
            ref[k] = (True, cont.get_object_content(k), cont.get_object_meta(k).size)
        except NotExistent:
            ref[k] = (False, None, None)
        if cont.has_object(k) != ref[k][0]:
            ref[k] = ('inconsistent-single', None, None)
    return ref


def compare_reads(cont, req, ref, tag, bad, counters):  # noqa: C901
    distinct = list(dict.fromkeys(req))
    present = [k for k in distinct if ref[k][0]]
    got = cont.has_objects(req)
    counters['bulk-calls'] += 1
    if got != [ref[k][0] for k in req]:
        bad('bulk:has_objects', f'{tag}: has_objects differs from has_object per key for a request of {len(req)} keys')
    for skip in (True, False):
        metas = list(cont.get_objects_meta(req, skip_if_missing=skip))
        counters['bulk-calls'] += 1
        ks = [k for k, _m in metas]
        want = present if skip else distinct
        if sorted(ks) != sorted(want):
            c = Counter(ks)
            bad('bulk:get_objects_meta', f'{tag}: get_objects_meta(skip={skip}) reported {len(ks)} keys (duplicates: '
                                         f'{sum(1 for v in c.values() if v > 1)}), expected {len(want)} distinct keys')
        for k, m in metas:
            if ref[k][0] and m.size != ref[k][2]:
                bad('bulk:get_objects_meta', f'{tag}: size of {k[:8]} differs from the single-key answer')
            if not ref[k][0] and m.type.value != 'missing':
                bad('bulk:get_objects_meta', f'{tag}: absent key {k[:8]} not reported as missing')
        cont_d = cont.get_objects_content(req, skip_if_missing=skip)
        counters['bulk-calls'] += 1
        want_d = {k: ref[k][1] for k in (present if skip else distinct)}
        if cont_d != want_d:
            bad('bulk:get_objects_content', f'{tag}: get_objects_content(skip={skip}) differs from per-key reads '
                                            f'({len(cont_d)} vs {len(want_d)} keys)')
        seen = Counter()
        with cont.get_objects_stream_and_meta(req, skip_if_missing=skip) as triplets:
            for k, stream, m in triplets:
                seen[k] += 1
                if ref[k][0]:
                    if stream is None or stream.read() != ref[k][1] or m.size != ref[k][2]:
                        bad('bulk:get_objects_stream_and_meta', f'{tag}: stream/meta of {k[:8]} differs from the single-key answer')
                elif stream is not None:
                    bad('bulk:get_objects_stream_and_meta', f'{tag}: absent key {k[:8]} has a stream')
        counters['bulk-calls'] += 1
        if sorted(seen) != sorted(want) or any(v != 1 for v in seen.values()):
            bad('bulk:get_objects_stream_and_meta', f'{tag}: (skip={skip}) keys reported {sum(seen.values())} times for {len(want)} distinct keys')


def run_differential(case):  # noqa: C901
    """Lowered thresholds (instance attributes) vs defaults vs single-key reference, on small containers."""
    from disk_objectstore import Container  # pylint: disable=import-outside-toplevel

    rnd = random.Random(f'c16-{case["seed"]}')
    base = common.mkscratch('blk-')
    counters, vios, seen = Counter(), [], set()
    sample = None
    try:
        for i in range(case['n']):
            root = os.path.join(base, f'c{i}')
            nobj = rnd.randint(3, 24)
            model = build(root, rnd, nobj, pack_target=rnd.choice([60, 4 * 1024 ** 3]))
            keys = list(model)
            absent = [_H(b'absent-%d' % j) for j in range(rnd.randint(0, 4))]
            req = [rnd.choice(keys) for _ in range(rnd.randint(0, 2 * nobj))] + absent
            if rnd.random() < 0.3:
                req += req[:3]
            rnd.shuffle(req)
            in_sql = rnd.choice([1, 2, 3, 5])
            max_chunk = rnd.choice([1, 4, 7, 10 ** 6])
            probs = []

            def bad(mech, msg):
                probs.append((mech, msg))

            try:
                _one_differential(root, base, i, rnd, model, keys, absent, req, in_sql, max_chunk, nobj, bad, counters, seen)
            except Exception as exc:  # noqa: BLE001 - a bulk operation on a legal request must not raise
                import traceback  # pylint: disable=import-outside-toplevel

                bad(f'bulk:raised:{type(exc).__name__}', f'_IN_SQL_MAX_LENGTH={in_sql} _MAX_CHUNK_ITERATE_LENGTH={max_chunk} request={len(req)} objects={nobj}: '
                                                          f'{exc!r} :: {traceback.format_exc()[-500:]}')
            counters['differential-cases'] += 1
            for mech, msg in probs[:2]:
                vios.append(common.violation(mech, msg, {'differential': {'seed': case['seed'], 'n': case['n'], 'index': i}}))
            if sample is None:
                sample = {'objects': nobj, 'request_len': len(req), 'distinct': len(set(req)), 'absent': len(absent),
                          '_IN_SQL_MAX_LENGTH': in_sql, '_MAX_CHUNK_ITERATE_LENGTH': max_chunk}
            common.rmtree(root)
            if len(vios) >= 6:
                break
        res = common.case_result(sig=f'diff{case["seed"]}', nontrivial=True, counters=counters, violations=vios, sample=sample)
        res['distinct'] = len(seen)
        res['evaluations'] = max(1, counters['differential-cases'])
        return res
    finally:
        common.rmtree(base)


def _one_differential(root, base, i, rnd, model, keys, absent, req, in_sql, max_chunk, nobj, bad, counters, seen):  # noqa: C901
    from disk_objectstore import Container  # pylint: disable=import-outside-toplevel

    if True:
        if True:
            plain = Container(root)
            ref = single_key_reference(plain, req + keys)
            if any(v[0] == 'inconsistent-single' for v in ref.values()):
                bad('bulk:single-key-inconsistent', 'has_object and get_object_content disagree')
            compare_reads(plain, req, ref, 'default thresholds', bad, counters)
            low = Container(root)
            low._IN_SQL_MAX_LENGTH = in_sql  # pylint: disable=protected-access
            low._MAX_CHUNK_ITERATE_LENGTH = max_chunk  # pylint: disable=protected-access
            tag = f'_IN_SQL_MAX_LENGTH={in_sql} _MAX_CHUNK_ITERATE_LENGTH={max_chunk} request={len(req)} distinct={len(set(req))} objects={nobj}'
            compare_reads(low, req, ref, tag, bad, counters)
            strategy = 'full-scan' if len(set(req)) > max_chunk else 'in-chunks'
            counters[f'strategy:{strategy}'] += 1
            # maintenance operations under lowered thresholds: same outcome as the model says
            what = rnd.choice(['pack', 'clean', 'delete', 'import', 'pack+clean'])
            counters[f'maintenance:{what}'] += 1
            if what in ('pack', 'pack+clean'):
                low.pack_all_loose(clean_loose_per_pack=rnd.random() < 0.5)
            if what in ('clean', 'pack+clean'):
                low.clean_storage()
            if what == 'delete':
                dreq = [k for k in req if rnd.random() < 0.5]
                got = low.delete_objects(dreq)
                want = {k for k in dreq if k in model}
                if sorted(got) != sorted(want):
                    bad('bulk:delete_objects', f'{tag}: delete_objects returned {len(got)} keys ({len(set(got))} distinct), expected {len(want)}')
                if any(low.has_objects(list(want))) if want else False:
                    bad('bulk:delete_objects', f'{tag}: keys reported as deleted still exist')
                for k in want:
                    model.pop(k)
            if what == 'import':
                dst_root = os.path.join(base, f'd{i}')
                dst = Container(dst_root)
                dst.init_container(clear=True)
                pre = [model[k] for k in keys[:len(keys) // 3]]
                for d in pre:
                    dst.add_object(d)
                dst._IN_SQL_MAX_LENGTH = in_sql  # pylint: disable=protected-access
                dst._MAX_CHUNK_ITERATE_LENGTH = max_chunk  # pylint: disable=protected-access
                low2 = low
                mapping = dst.import_objects(req, low2)
                want_keys = {k for k in req if k in model}
                got_all = dst.get_objects_content(list(want_keys))
                if {k: model[k] for k in want_keys} != got_all:
                    bad('bulk:import_objects', f'{tag}: after import the destination misses/mis-reads requested objects')
                if any(k not in want_keys or v != k for k, v in mapping.items()):
                    bad('bulk:import_objects', f'{tag}: import mapping wrong')
                dst.close()
                common.rmtree(dst_root)
            low.close()
            fresh = Container(root)
            ref2 = single_key_reference(fresh, keys + absent)
            for k in keys:
                if (k in model) != ref2[k][0] or (k in model and ref2[k][1] != model[k]):
                    bad('bulk:maintenance-changed-objects', f'{tag}: after {what} object {k[:8]} is {"missing" if not ref2[k][0] else "wrong"}')
            snap = rawread.Snapshot(root)
            if what in ('clean', 'pack+clean'):
                packed = {r.hashkey for r in snap.rows}
                left = [k for k in snap.loose if k in packed]
                if left:
                    bad('bulk:clean_storage', f'{tag}: {len(left)} loose copies of packed objects survived clean_storage')
            if what.startswith('pack'):
                unpacked = [k for k in snap.loose if k not in {r.hashkey for r in snap.rows}]
                if unpacked:
                    bad('bulk:pack_all_loose', f'{tag}: {len(unpacked)} loose objects were not packed')
            if len({r.hashkey for r in snap.rows}) != len(snap.rows):
                bad('bulk:double-row', f'{tag}: a key is indexed twice')
            fresh.close()
            plain.close()
            seen.add((nobj, len(req), in_sql, max_chunk, what))


def run_real_thresholds(case):  # noqa: C901
    """The real thresholds (950 / 9500 / 1000-row paging) on a container with ~10 200 objects."""
    from disk_objectstore import Container  # pylint: disable=import-outside-toplevel

    rnd = random.Random(f'c16-real-{case["seed"]}')
    base = common.mkscratch('blk-')
    counters, vios = Counter(), []
    try:
        root = os.path.join(base, 'big')
        cont = Container(root)
        cont.init_container(clear=True)
        total = case.get('total', 10200)
        datas = [b'%d-%d' % (i, case['seed']) for i in range(total)]
        model = {}
        nloose = 40
        sizes_rows = sorted(case['row_counts'])
        done = 0

        def bad(mech, msg):
            vios.append(common.violation(mech, msg, {'real': case}))

        # grow the index through the paging boundaries, listing and no_holes at each
        for target_rows in sizes_rows + [total - nloose]:
            chunk = datas[done:target_rows]
            for k, d in zip(cont.add_objects_to_pack(chunk, compress=(len(model) // 1000) % 2 == 0), chunk):  # size != length for half of them
                model[k] = d
            done = target_rows
            listed = list(cont.list_all_objects())
            counters['paging-listings'] += 1
            if sorted(listed) != sorted(model):
                bad('bulk:list_all_objects:paging', f'{done} rows: listing yields {len(listed)} keys ({len(set(listed))} distinct), expected {len(model)}')
            # no_holes loads the known keys with the same 1000-row paging: re-adding known content must not grow the pack
            before = rawread.Snapshot(root).packfile_bytes()
            again = rnd.sample(chunk, min(5, len(chunk))) + [datas[0], datas[done - 1]]
            cont.add_objects_to_pack(again, no_holes=True)
            counters['paging-no-holes-calls'] += 1
            after = rawread.Snapshot(root)
            if after.packfile_bytes() != before or len(after.rows) != done:
                bad('bulk:no_holes:paging', f'{done} rows: re-adding known content with no_holes grew the pack by {after.packfile_bytes() - before} '
                                            f'bytes / rows {len(after.rows)}')
        for d in datas[total - nloose:]:
            model[cont.add_object(d)] = d
        keys = list(model)
        absent = [_H(b'nope-%d' % j) for j in range(5)]
        for n in case['request_sizes']:
            req = rnd.sample(keys, min(n, len(keys)))
            if n >= 2:
                req[-1] = absent[0]
                req.append(req[0])  # one absent key and one repeated key
            got = cont.has_objects(req)
            counters['real-threshold-requests'] += 1
            want = [k in model for k in req]
            if got != want:
                bad('bulk:has_objects:real-thresholds', f'request of {len(req)} keys ({len(set(req))} distinct): {sum(1 for a, b in zip(got, want) if a != b)} wrong answers')
            metas = list(cont.get_objects_meta(req, skip_if_missing=False))
            wrong_size = [k for k, m in metas if k in model and m.size != len(model[k])]
            if wrong_size:
                bad('bulk:get_objects_meta:real-thresholds', f'request of {len(req)} keys: {len(wrong_size)} objects reported with a wrong size')
            if sorted(k for k, _ in metas) != sorted(set(req)):
                bad('bulk:get_objects_meta:real-thresholds', f'request of {len(req)} keys: {len(metas)} results for {len(set(req))} distinct keys')
            content = cont.get_objects_content(req)
            if content != {k: model[k] for k in set(req) if k in model}:
                bad('bulk:get_objects_content:real-thresholds', f'request of {len(req)} keys: contents differ from the model')
            counters[f'request-size:{n}'] += 1
        # pack/clean with > 9500 loose? (too slow for quick) - use the loose ones present
        cont.pack_all_loose()
        cont.clean_storage()
        if cont.count_objects().loose != 0 or sorted(cont.list_all_objects()) != sorted(model):
            bad('bulk:pack-clean:real-thresholds', 'pack_all_loose+clean_storage left loose objects or changed the key set')
        # delete across the 950 chunk boundary
        dreq = rnd.sample(keys, 1901) + absent
        got = cont.delete_objects(dreq)
        if sorted(got) != sorted(set(dreq) & set(model)):
            bad('bulk:delete_objects:real-thresholds', f'delete_objects of {len(dreq)} keys returned {len(got)}')
        still = [k for k, present in zip(dreq, cont.has_objects(dreq)) if present]
        if still:
            bad('bulk:delete_objects:real-thresholds', f'after delete_objects of {len(dreq)} keys (3 SQL batches) {len(still)} of them still exist')
        left = set(cont.list_all_objects())
        if left != set(model) - set(dreq):
            bad('bulk:delete_objects:real-thresholds', f'after the delete the listing has {len(left)} keys, expected {len(set(model) - set(dreq))}')
        counters['real-threshold-deletes'] += 1
        cont.close()
        res = common.case_result(sig=f'real{case["seed"]}', nontrivial=True, counters=counters, violations=vios[:6],
                                 sample={'objects': total, 'request_sizes': case['request_sizes'], 'row_counts': case['row_counts']})
        res['distinct'] = len(case['request_sizes']) + len(case['row_counts'])
        res['evaluations'] = counters['real-threshold-requests'] + counters['paging-listings']
        return res
    finally:
        common.rmtree(base)


run_real_thresholds.case_timeout = 900


def run_helpers(case):  # noqa: C901
    """detect_where_sorted / merge_sorted / chunk_iterator: exhaustive over a small universe."""
    from disk_objectstore.utils import Location, chunk_iterator, detect_where_sorted, merge_sorted  # pylint: disable=import-outside-toplevel

    counters, vios = Counter(), []
    U = list(range(case.get('universe', 6)))  # noqa: N806

    def bad(mech, msg):
        if len(vios) < 6:
            vios.append(common.violation(mech, msg, {'helpers': case}))

    subsets = [list(c) for n in range(len(U) + 1) for c in itertools.combinations(U, n)]
    for left in subsets:
        for right in subsets:
            for with_key in (False, True):
                if with_key:
                    litems = [(f'payload{x}', x) for x in left]
                    res = list(detect_where_sorted(litems, right, left_key=lambda t: t[1]))
                    norm = [((item[1] if isinstance(item, tuple) else item), where, isinstance(item, tuple)) for item, where in res]
                else:
                    res = list(detect_where_sorted(left, right))
                    norm = [(item, where, None) for item, where in res]
                counters['detect_where_sorted-pairs'] += 1
                want = {}
                for x in set(left) | set(right):
                    want[x] = Location.BOTH if x in left and x in right else Location.LEFTONLY if x in left else Location.RIGHTONLY
                got = Counter(x for x, _w, _t in norm)
                if any(v != 1 for v in got.values()) or set(got) != set(want):
                    bad('helpers:detect_where_sorted:exactly-once', f'left={left} right={right} key={with_key}: elements reported {dict(got)}')
                    continue
                for x, where, is_left in norm:
                    if where != want[x]:
                        bad('helpers:detect_where_sorted:classification', f'left={left} right={right}: {x} classified {where}, expected {want[x]}')
                    if with_key and where in (Location.BOTH, Location.LEFTONLY) and not is_left:
                        bad('helpers:detect_where_sorted:left-item', f'left={left} right={right}: for {x} the right item was returned instead of the left one')
                if [x for x, _w, _t in norm] != sorted(want):
                    bad('helpers:detect_where_sorted:order', f'left={left} right={right}: output not in sorted order')
            merged = list(merge_sorted(left, right))
            counters['merge_sorted-pairs'] += 1
            if merged != sorted(set(left) | set(right)):
                bad('helpers:merge_sorted', f'merge_sorted({left}, {right}) = {merged}')
    # unsorted / repeated input must be rejected when fully consumed
    V = list(range(4))  # noqa: N806
    seqs = [list(p) for n in range(4) for p in itertools.product(V, repeat=n)]
    for left in seqs:
        for right in seqs:
            ok_l = all(a < b for a, b in zip(left, left[1:]))
            ok_r = all(a < b for a, b in zip(right, right[1:]))
            if ok_l and ok_r:
                continue
            counters['invalid-input-pairs'] += 1
            try:
                out = list(detect_where_sorted(left, right))
                bad('helpers:detect_where_sorted:unsorted-accepted', f'left={left} right={right} (not both sorted+unique) accepted, output {out}')
            except ValueError:
                pass
    for n in range(0, 12):
        for size in range(1, 6):
            chunks = list(chunk_iterator(range(n), size))
            counters['chunk_iterator-cases'] += 1
            flat = [x for c in chunks for x in c]
            if flat != list(range(n)) or any(len(c) != size for c in chunks[:-1]) or (chunks and not 0 < len(chunks[-1]) <= size):
                bad('helpers:chunk_iterator', f'chunk_iterator(range({n}), {size}) = {chunks}')
    res = common.case_result(sig='helpers', nontrivial=True, counters=counters, violations=vios,
                             sample={'left': [0, 2, 3], 'right': [1, 2, 5], 'result': [[i, w.name] for i, w in detect_where_sorted([0, 2, 3], [1, 2, 5])]})
    res['distinct'] = counters['detect_where_sorted-pairs'] + counters['invalid-input-pairs'] + counters['merge_sorted-pairs']
    res['evaluations'] = res['distinct']
    return res
