"""E7: descriptor census (/proc/self/fd) and tracemalloc probes for C18."""
from __future__ import annotations

import os
from collections import Counter

INDEX_NAMES = {'packs.idx', 'packs.idx-wal', 'packs.idx-shm'}
MAX_INDEX_FDS_PER_HANDLE = 8


def open_under(*roots: str) -> list[tuple[int, str]]:
    """(fd, path) of every descriptor of this process whose target lies under one of the roots."""
    roots = [os.path.realpath(r) for r in roots]
    out = []
    for name in os.listdir('/proc/self/fd'):
        try:
            target = os.readlink(f'/proc/self/fd/{name}')
        except OSError:
            continue
        target = target.replace(' (deleted)', '')
        for root in roots:
            if target == root or target.startswith(root + os.sep):
                out.append((int(name), target))
                break
    return out


def classify(root: str, path: str) -> str:
    rel = os.path.relpath(path, os.path.realpath(root))
    if rel in INDEX_NAMES:
        return 'index'
    top = rel.split(os.sep)[0]
    if top in ('loose', 'packs', 'sandbox', 'duplicates'):
        return top if rel != top else f'dir:{top}'
    return 'other:' + rel


def quiescent_check(world, op=None):
    """Between operations (no generator alive): only index descriptors, and a bounded number of them."""
    fds = open_under(world.root, world.aux)
    world.counters['census-quiescent'] += 1
    kinds = Counter()
    for _fd, path in fds:
        if path.startswith(os.path.realpath(world.aux)):
            # source containers of import ops are closed by the harness; input files must be closed
            rel = os.path.relpath(path, os.path.realpath(world.aux))
            if os.path.basename(path) in INDEX_NAMES:
                kinds['src-index'] += 1
                continue
            kinds['input:' + rel] += 1
            world.problem('census:input-left-open', f'after {op and op["op"]}: input file {rel} still open')
            continue
        kind = classify(world.root, path)
        kinds[kind] += 1
        if kind != 'index':
            world.problem(f'census:leak:{kind.split(":")[0]}',
                          f'after {op and op["op"]}: descriptor open on {os.path.relpath(path, os.path.realpath(world.root))} '
                          f'at a quiescent point')
    limit = MAX_INDEX_FDS_PER_HANDLE * max(1, len(world.handles))
    if kinds['index'] > limit:
        world.problem('census:index-fds-accumulate',
                      f'after {op and op["op"]}: {kinds["index"]} index descriptors for {len(world.handles)} handle(s)')
    if kinds['src-index']:
        world.problem('census:source-left-open', 'source container of an import still has descriptors after close()')


def after_close_check(world):
    world.close()
    world.counters['census-after-close'] += 1
    for _fd, path in open_under(world.root, world.aux):
        world.problem('census:open-after-close',
                      f'descriptor still open after close(): {path.replace(os.path.realpath(world.root), "<root>")}')
