"""Shared run/verdict/evidence infrastructure for all checks.

A check module exposes ``PROPERTY``, ``LEVEL`` and ``run(ctx)``.  ``ctx`` is a
:class:`Run`; workers (functions executed in forked pool processes) return plain dicts
(see :func:`case_result`) which the run object aggregates into counters, distinct case
signatures, violations and the evidence file.
"""
from __future__ import annotations

import hashlib
import json
import multiprocessing as mp
import os
import random
import shutil
import sys
import tempfile
import time
import traceback
from collections import Counter
from concurrent.futures import ProcessPoolExecutor, as_completed

VERIF = os.path.dirname(os.path.dirname(os.path.abspath(__file__)))
REPO = os.environ.get('VERIF_REPO', '/repo')
NCPU = int(os.environ.get('VERIF_WORKERS') or min(8, os.cpu_count() or 1))  # measured: this VM gains nothing beyond ~8 workers

EXIT_HELD, EXIT_VIOLATION, EXIT_INCONCLUSIVE = 0, 1, 2


def scratch_base() -> str:
    """Directory in which private scratch directories are created (removed on exit)."""
    base = os.environ.get('VERIF_TMP')
    if base:
        os.makedirs(base, exist_ok=True)
        return base
    shm = '/dev/shm'
    try:  # tmpfs: fsync is free there and scratch containers never touch the disk
        if os.path.isdir(shm) and os.access(shm, os.W_OK) and shutil.disk_usage(shm).free > (4 << 30):
            return shm
    except OSError:
        pass
    return tempfile.gettempdir()


def mkscratch(prefix: str = 'verif-') -> str:
    return tempfile.mkdtemp(prefix=prefix, dir=scratch_base())


def rmtree(path: str) -> None:
    shutil.rmtree(path, ignore_errors=True)


def digest(obj) -> str:
    return hashlib.sha1(json.dumps(obj, sort_keys=True, default=repr).encode()).hexdigest()[:16]


def case_result(sig, nontrivial=True, counters=None, violations=None, sample=None, inconclusive=None, extra=None):
    return {
        'sig': sig,
        'nontrivial': bool(nontrivial),
        'counters': dict(counters or {}),
        'violations': list(violations or []),
        'sample': sample,
        'inconclusive': inconclusive,
        'extra': extra,
    }


def violation(mechanism: str, msg: str, replay: dict | None = None) -> dict:
    return {'mechanism': mechanism, 'msg': msg, 'replay': replay or {}}


class CaseTimeout(BaseException):
    """Raised inside a worker by SIGALRM when one case exceeds its wall-clock watchdog."""


def _alarm(_sig, _frm):
    raise CaseTimeout()


def _guarded(func, case):
    """Run one case in a worker; an exception inside the harness is an inconclusive case.

    A generous per-case wall-clock watchdog (SIGALRM) turns a case that does not terminate into an
    *inconclusive* result (never a violation, never held).
    """
    import signal  # pylint: disable=import-outside-toplevel

    limit = int((case.get('timeout') if isinstance(case, dict) else None) or getattr(func, 'case_timeout', 1800))
    old = signal.signal(signal.SIGALRM, _alarm)
    signal.alarm(limit)
    try:
        return func(case)
    except CaseTimeout:
        brief = {k: v for k, v in case.items() if k in ('prop', 'seed', 'name', 'variant')} if isinstance(case, dict) else case
        return case_result(sig='timeout', nontrivial=False,
                           inconclusive=f'watchdog: case {brief} did not finish within {limit}s')
    except BaseException as exc:  # noqa: BLE001 - harness failure must not be swallowed silently
        if isinstance(exc, KeyboardInterrupt):
            raise
        return case_result(
            sig='harness-error',
            nontrivial=False,
            inconclusive=f'harness error in {getattr(func, "__name__", func)}: {exc!r}\n{traceback.format_exc()[-1500:]}',
        )
    finally:
        signal.alarm(0)
        signal.signal(signal.SIGALRM, old)


def load_known_findings(path: str | None = None) -> dict:
    """Parse known_findings.txt.

    Lines:  ``open: property=<id> mechanism=<key> <free text>``  (suppresses VIOLATION, prints KNOWN-FINDING)
            ``fixed: property=<id> <commit> <free text>``         (suppresses nothing)
    """
    path = path or os.path.join(VERIF, 'known_findings.txt')
    out = {'open': {}, 'fixed': []}
    if not os.path.exists(path):
        return out
    with open(path, encoding='utf8') as fh:
        for line in fh:
            line = line.strip()
            if not line or line.startswith('#'):
                continue
            kind, _, rest = line.partition(':')
            fields = rest.split()
            kv = dict(f.split('=', 1) for f in fields if '=' in f)
            if kind == 'open' and 'property' in kv and 'mechanism' in kv:
                out['open'].setdefault(kv['property'], {})[kv['mechanism']] = rest.strip()
            elif kind == 'fixed':
                out['fixed'].append(rest.strip())
    return out


class Run:
    """Aggregates what the monitors observed and decides the three-valued verdict."""

    def __init__(self, prop: str, level: str, tier: str, seed: int, rule: str, assumptions=None):
        self.prop = prop
        self.level = level
        self.tier = tier
        self.seed = seed
        self.rule = rule
        self.assumptions = list(assumptions or [])
        self.rng = random.Random(f'{prop}-{seed}')
        self.t0 = time.time()
        self.evaluations = 0
        self.sigs: set[str] = set()
        self.extra_distinct = 0
        self.counters: Counter = Counter()
        self.violations: list[dict] = []
        self.inconclusive: list[str] = []
        self.samples: list = []
        self.extra: dict = {}
        self.max_samples = 6
        self.required_counters: list[tuple[str, int]] = []
        self.exhaustive = False
        self._scratch: list[str] = []

    # -- helpers -----------------------------------------------------------------
    @property
    def quick(self) -> bool:
        return self.tier == 'quick'

    def pick(self, quick, thorough):
        return quick if self.quick else thorough

    def scratch(self, prefix='verif-') -> str:
        path = mkscratch(prefix)
        self._scratch.append(path)
        return path

    def cleanup(self):
        for path in self._scratch:
            rmtree(path)
        self._scratch = []

    def require(self, counter: str, minimum: int = 1):
        """Declare that the verdict is inconclusive unless ``counter`` reached ``minimum``."""
        self.required_counters.append((counter, minimum))

    def count(self, name: str, n: int = 1):
        self.counters[name] += n

    # -- aggregation ---------------------------------------------------------------
    def absorb(self, res: dict):
        self.evaluations += int(res.get('evaluations') or 1)
        if res.get('inconclusive'):
            self.inconclusive.append(res['inconclusive'])
        if res.get('distinct') is not None:
            self.extra_distinct += int(res['distinct'])  # the worker counted its own distinct sub-cases (a set size)
        elif res.get('nontrivial') and res.get('sig') is not None:
            self.sigs.add(res['sig'])
        for key, val in (res.get('counters') or {}).items():
            self.counters[key] += val
        for vio in res.get('violations') or []:
            self.violations.append(vio)
        if res.get('sample') is not None and len(self.samples) < self.max_samples:
            self.samples.append(res['sample'])

    def map(self, func, cases, workers: int | None = None, chunksize: int = 1, timeout_s: float | None = None):
        """Run ``func(case)`` for every case in forked worker processes; absorb and yield results."""
        cases = list(cases)
        if not cases:
            return []
        if timeout_s is None:  # generous wall-clock watchdog around the whole pool (its firing is inconclusive, never a verdict)
            timeout_s = 3000.0 if self.quick else 6 * 3600.0
        workers = min(workers or NCPU, len(cases))
        results = []
        if workers <= 1 or os.environ.get('VERIF_SERIAL'):
            for case in cases:
                res = _guarded(func, case)
                self.absorb(res)
                results.append(res)
            return results
        ctx = mp.get_context('fork')
        deadline = time.time() + timeout_s
        with ProcessPoolExecutor(max_workers=workers, mp_context=ctx) as pool:
            futs = [pool.submit(_guarded, func, case) for case in cases]
            try:
                for fut in as_completed(futs, timeout=max(1.0, deadline - time.time())):
                    try:
                        res = fut.result()
                    except BaseException as exc:  # noqa: BLE001  (BrokenProcessPool etc.)
                        res = case_result('pool-error', nontrivial=False, inconclusive=f'worker died: {exc!r}')
                    self.absorb(res)
                    results.append(res)
            except TimeoutError:
                self.inconclusive.append(f'watchdog: case pool exceeded {timeout_s}s')
                for fut in futs:
                    fut.cancel()
                pool.shutdown(wait=False, cancel_futures=True)
        return results

    # -- verdict ---------------------------------------------------------------------
    def finish(self) -> int:
        wall = time.time() - self.t0
        known = load_known_findings()
        open_here = known['open'].get(self.prop, {})
        real, suppressed = [], {}
        for vio in self.violations:
            if vio['mechanism'] in open_here:
                suppressed.setdefault(vio['mechanism'], []).append(vio)
            else:
                real.append(vio)
        for need, minimum in self.required_counters:
            if self.counters.get(need, 0) < minimum:
                self.inconclusive.append(f'monitor/mechanism counter {need!r} = {self.counters.get(need, 0)} < {minimum}')
        if self.evaluations == 0:
            self.inconclusive.append('no case was evaluated')

        coverage = {
            'evaluations': self.evaluations,
            'distinct_nontrivial': len(self.sigs) + self.extra_distinct,
            'rule': self.rule,
            'samples': self.samples,
            'counters': dict(sorted(self.counters.items())),
            'exhaustive': bool(self.exhaustive),
            'known_findings_seen': {k: len(v) for k, v in suppressed.items()},
            'inconclusive_reasons': self.inconclusive[:10],
        }
        coverage.update(self.extra)
        evidence = {
            'property_id': self.prop,
            'tier': self.tier,
            'seed': self.seed,
            'level': self.level,
            'coverage': coverage,
            'assumptions': self.assumptions,
            'wall_s': round(wall, 2),
            'violations': len(real),
        }
        evdir = os.environ.get('VERIF_EVIDENCE_DIR') or os.path.join(VERIF, 'evidence')  # (mutant self-tests write elsewhere)
        os.makedirs(evdir, exist_ok=True)
        evpath = os.path.join(evdir, f'{self.prop}.json')
        with open(evpath + '.tmp', 'w', encoding='utf8') as fh:
            json.dump(evidence, fh, indent=1, default=repr)
        os.replace(evpath + '.tmp', evpath)

        for mech, vios in suppressed.items():
            print(f'KNOWN-FINDING: property={self.prop} {open_here[mech]} (seen {len(vios)}x this run)')

        counters_txt = ' '.join(f'{k}={v}' for k, v in sorted(self.counters.items()))
        if real:
            rdir = os.path.join(VERIF, 'replays') if not os.environ.get('VERIF_EVIDENCE_DIR') else os.path.join(os.environ['VERIF_EVIDENCE_DIR'], 'replays')
            os.makedirs(rdir, exist_ok=True)
            seen = set()
            for vio in real[:20]:
                body = {'property': self.prop, 'tier': self.tier, 'seed': self.seed, **vio}
                rid = digest(body)
                if rid in seen:
                    continue
                seen.add(rid)
                rpath = os.path.join(rdir, f'{self.prop}-{rid}.json')
                with open(rpath, 'w', encoding='utf8') as fh:
                    json.dump(body, fh, indent=1, default=repr)
                print(f'VIOLATION property={self.prop} replay={rpath}')
                print(f'  mechanism={vio["mechanism"]} :: {vio["msg"][:600]}')
            print(f'  ({len(real)} violating observations in {self.evaluations} evaluations; {counters_txt})')
            self.cleanup()
            return EXIT_VIOLATION
        if self.inconclusive:
            print(f'INCONCLUSIVE property={self.prop} reason={self.inconclusive[0][:800]}')
            if len(self.inconclusive) > 1:
                print(f'  (+{len(self.inconclusive) - 1} more reasons)')
            print(f'  evaluations={self.evaluations} distinct={len(self.sigs)} {counters_txt}')
            self.cleanup()
            return EXIT_INCONCLUSIVE
        print(
            f'HELD property={self.prop} tier={self.tier} seed={self.seed} evaluations={self.evaluations} '
            f'distinct_nontrivial={len(self.sigs) + self.extra_distinct} wall_s={wall:.1f} {counters_txt}'
        )
        self.cleanup()
        return EXIT_HELD


def reexec_with_hashseed(seed: int):
    """Make the library's own set-iteration order reproducible for a seed (and vary across seeds)."""
    want = str(seed % 4294967295)
    if os.environ.get('PYTHONHASHSEED') != want:
        env = dict(os.environ)
        env['PYTHONHASHSEED'] = want
        os.execve(sys.executable, [sys.executable] + sys.argv, env)


def assert_repo_under_test():
    import disk_objectstore  # pylint: disable=import-outside-toplevel

    path = os.path.realpath(disk_objectstore.__file__)
    root = os.path.realpath(REPO)
    if not path.startswith(root + os.sep):
        print(f'INCONCLUSIVE reason=disk_objectstore imported from {path}, not from {root}')
        sys.exit(EXIT_INCONCLUSIVE)
