"""C10: compression is transparent and honours the requested mode - chains of pack/repack with every mode."""
from __future__ import annotations

import os
import random
from collections import Counter

from . import common, gen, rawread

CONTENTS = [['rnd', 0, 1], ['rnd', 1, 2], ['rnd', 40, 3], ['zero', 50000, 4], ['text', 30000, 5], ['rnd', 140000, 6],
            ['mix', 300000, 7], ['mixr', 300000, 8], ['text', 300000, 9], ['mix', 262144, 10], ['mixr', 131072, 11], ['text', 1, 12]]
MODES = ['no', 'yes', 'keep', 'auto']


def gen_chain(rnd):
    nobj = rnd.randint(3, 7)
    specs = rnd.sample(CONTENTS, nobj)
    specs = [[k, n, s + rnd.randrange(3) * 100] for k, n, s in specs]
    ops = []
    loose = [s for s in specs if rnd.random() < 0.6]
    direct_p = [s for s in specs if s not in loose and rnd.random() < 0.5]
    direct_z = [s for s in specs if s not in loose and s not in direct_p]
    if direct_p:
        ops.append(['direct', direct_p, False])
    if loose:
        ops.append(['add', loose])
    if direct_z:
        ops.append(['direct', direct_z, True])
    if loose:
        ops.append(['pack', rnd.choice(MODES + [True, False]), rnd.random() < 0.5])
    for _ in range(rnd.randint(3, 7)):
        x = rnd.random()
        if x < 0.7:
            ops.append(['repack', rnd.choice(MODES)])
        elif x < 0.8:
            extra = [[rnd.choice(['text', 'rnd', 'zero']), rnd.choice([0, 10, 5000, 140000]), rnd.randrange(1000, 2000)]]
            ops.append(['add', extra])
            ops.append(['pack', rnd.choice(MODES + [True, False]), rnd.random() < 0.5])
        elif x < 0.9:
            ops.append(['clean'])
        else:
            ops.append(['reopen'])
    return {'cfg': {'hash_type': rnd.choice(['sha1', 'sha256']), 'loose_prefix_len': 2,
                    'compression_algorithm': f'zlib+{rnd.randrange(1, 10)}', 'pack_size_target': rnd.choice([100000, 4 * 1024 ** 3])},
            'ops': ops}


def expected_flag(mode):
    if mode in ('yes', True):
        return True
    if mode in ('no', False):
        return False
    return None


def run_chain(chain, base, counters):  # noqa: C901
    from disk_objectstore import CompressMode, Container  # pylint: disable=import-outside-toplevel

    root = os.path.join(base, 'c')
    cont = Container(root)
    cont.init_container(clear=True, **chain['cfg'])
    model = {}
    probs = []

    def bad(mech, msg):
        probs.append((mech, msg))

    try:
        for step, op in enumerate(chain['ops']):
            before = {r.hashkey: r for r in rawread.Snapshot(root).rows}
            where = f'step {step} {op[0]}{op[1:] if op[0] not in ("add", "direct") else [len(op[1])] + op[2:]}'
            affected_mode = None
            if op[0] == 'add':
                for s in op[1]:
                    d = gen.content(s)
                    model[cont.add_object(d)] = d
            elif op[0] == 'direct':
                ds = [gen.content(s) for s in op[1]]
                for k, d in zip(cont.add_objects_to_pack(ds, compress=op[2]), ds):
                    model[k] = d
                affected_mode = ('direct', op[2])
            elif op[0] == 'pack':
                mode = op[1] if isinstance(op[1], bool) else CompressMode(op[1])
                cont.pack_all_loose(compress=mode, clean_loose_per_pack=op[2])
                affected_mode = ('pack', op[1])
            elif op[0] == 'repack':
                cont.repack(compress_mode=CompressMode(op[1]))
                affected_mode = ('repack', op[1])
            elif op[0] == 'clean':
                cont.clean_storage()
            elif op[0] == 'reopen':
                cont.close()
                cont = Container(root)
            counters[f'op:{op[0]}'] += 1
            snap = rawread.Snapshot(root)
            rows = {r.hashkey: r for r in snap.rows}
            # transparency
            got = cont.get_objects_content(list(model))
            for k, d in model.items():
                if got.get(k) != d:
                    bad('compress:read-changed', f'{where}: {k[:10]} ({len(d)} bytes) reads back differently after the operation')
            # mode honoured for affected objects
            if affected_mode:
                what, mode = affected_mode
                if what == 'repack':
                    affected = list(rows)
                elif what == 'pack':
                    affected = [k for k in rows if k not in before]
                else:
                    affected = [k for k in rows if k not in before]
                want = expected_flag(mode) if what != 'direct' else mode
                for k in affected:
                    row = rows[k]
                    counters['affected-objects-checked'] += 1
                    counters[f'stored:{"z" if row.compressed else "plain"}:{mode}'] += 1
                    if what == 'repack' and mode == 'keep':
                        if k in before and bool(before[k].compressed) != bool(row.compressed):
                            bad('compress:mode-not-honoured:keep', f'{where}: {k[:10]} changed form under KEEP')
                    elif what == 'pack' and mode == 'keep':
                        if row.compressed:
                            bad('compress:mode-not-honoured:keep', f'{where}: loose object {k[:10]} stored compressed under KEEP (documented as NO for loose objects)')
                    elif want is not None and bool(row.compressed) != want:
                        bad(f'compress:mode-not-honoured:{mode}', f'{where}: {k[:10]} ({row.size} bytes) stored '
                                                                   f'{"compressed" if row.compressed else "uncompressed"} under mode {mode}')
            # recorded size / length / totals
            metas = dict(cont.get_objects_meta(list(model)))
            for k, d in model.items():
                m = metas.get(k)
                if m is None or m.size != len(d):
                    bad('compress:size', f'{where}: recorded size of {k[:10]} is {getattr(m, "size", None)}, content has {len(d)} bytes')
                if k in rows and m is not None:
                    if m.pack_length != rows[k].length or bool(m.pack_compressed) != bool(rows[k].compressed):
                        bad('compress:meta-vs-index', f'{where}: meta of {k[:10]} disagrees with its index row')
            for problem in snap.consistency_problems():
                bad('compress:raw:' + problem.split(':')[0].split(' ')[0], f'{where}: {problem}')
            if op[0] == 'repack':  # after a full repack every object occupies exactly [offset, next offset)
                per_pack = {}
                for r in snap.rows:
                    per_pack.setdefault(r.pack_id, []).append(r)
                for pid, prs in per_pack.items():
                    prs.sort(key=lambda r: (r.offset, r.length))
                    pos = 0
                    for r in prs:
                        if r.offset != pos:
                            bad('compress:length-not-occupied-bytes', f'{where}: packs/{pid}: {r.hashkey[:10]} starts at {r.offset}, previous object ends at {pos}')
                            break
                        pos += r.length
                    size = snap.packs.get(str(pid))
                    if size != pos:
                        bad('compress:length-not-occupied-bytes', f'{where}: packs/{pid} has {size} bytes, its objects occupy {pos}')
                counters['tiling-checks'] += 1
            tot = cont.get_total_size()
            want_tot = {'total_size_packed': sum(r.size for r in snap.rows), 'total_size_packed_on_disk': sum(r.length for r in snap.rows),
                        'total_size_packfiles_on_disk': snap.packfile_bytes(),
                        'total_size_loose': sum(os.path.getsize(p) for p in snap.loose.values())}
            for name, val in want_tot.items():
                if tot[name] != val:
                    bad('compress:totals', f'{where}: get_total_size().{name} = {tot[name]}, raw sum = {val}')
            counters['total-size-checks'] += 1
            if probs:
                break
    finally:
        cont.close()
    return probs


def run_batch(case):
    rnd = random.Random(f'c10-{case["seed"]}')
    base = common.mkscratch('cmp-')
    counters, vios, seen = Counter(), [], set()
    sample = None
    try:
        for i in range(case['n']):
            chain = case.get('explicit') or gen_chain(rnd)
            sub = os.path.join(base, f'x{i}')
            os.makedirs(sub)
            try:
                probs = run_chain(chain, sub, counters)
            except Exception as exc:  # noqa: BLE001
                import traceback  # pylint: disable=import-outside-toplevel

                probs = [(f'compress:raised:{type(exc).__name__}', f'{exc!r} :: {traceback.format_exc()[-400:]}')]
            finally:
                common.rmtree(sub)
            counters['chains'] += 1
            seen.add(common.digest(chain))
            for mech, msg in probs[:2]:
                vios.append(common.violation(mech, msg, {'explicit': chain}))
            if sample is None:
                sample = {'cfg': chain['cfg'], 'ops': [[o[0]] + [x if not isinstance(x, list) else [f'{s[0]}:{s[1]}' for s in x] for x in o[1:]] for o in chain['ops']]}
            if len(vios) >= 6 or case.get('explicit'):
                break
        res = common.case_result(sig=f'cmp{case["seed"]}', nontrivial=True, counters=counters, violations=vios, sample=sample)
        res['distinct'] = len(seen)
        res['evaluations'] = max(1, counters['chains'])
        return res
    finally:
        common.rmtree(base)
