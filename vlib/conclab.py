"""C04 lab: readers / loose writers against one concurrent packer, under controlled interleavings.

Layer 1  depth-1, exhaustive: one actor's whole operation placed atomically at every I/O boundary of another
         (inline probes, no threads).
Layer 2  depth-2 scripts on the thread scheduler: reader paused at j, packer advanced k1..k2, reader finished.
Layer 3  seeded random / PCT schedules with several writers, readers and one packer.
"""
from __future__ import annotations

import os
import random
import shutil
from collections import Counter

from . import common, gen, iotrace, sched

READ_KINDS = ['single', 'bulk', 'meta', 'has', 'chunks', 'seek', 'bulkseek']
WRITE_KINDS = ['write-new', 'write-dup']
PROBES = READ_KINDS + WRITE_KINDS
PACKER_VARIANTS = [(mode, clpp) for mode in ('no', 'yes', 'auto') for clpp in (False, True)]


class Arena:
    """A container with acknowledged objects (some loose, some packed compressed) and a model of them."""

    def __init__(self, root, template=None):
        from disk_objectstore import Container  # pylint: disable=import-outside-toplevel

        self.Container = Container
        self.root = root
        self.acked: dict[str, bytes] = {}
        self.problems: list[tuple[str, str]] = []
        self.counters = Counter()
        self.zkeys: list[str] = []
        self.nnew = 0
        if template is not None:
            shutil.copytree(template.root, root)
            self.acked = dict(template.acked)
            self.zkeys = list(template.zkeys)

    @classmethod
    def build(cls, root, seed=0, nloose=6, pack_target=4 * 1024 ** 3):
        self = cls(root)
        cont = self.Container(root)
        cont.init_container(clear=True, pack_size_target=pack_target)
        rnd = random.Random(seed)
        zdatas = [gen.content(['text', 3000 + 100 * i, seed * 10 + i]) for i in range(2)]
        for k, d in zip(cont.add_objects_to_pack(zdatas, compress=True), zdatas):
            self.acked[k] = d
            self.zkeys.append(k)
        for i in range(nloose):
            d = gen.content([rnd.choice(['text', 'rnd', 'zero']), rnd.choice([0, 5, 300, 1200, 70000 if i == 0 else 800]), seed * 100 + i])
            self.acked[cont.add_object(d)] = d
        cont.close()
        return self

    low = False  # shadow the lookup thresholds on client handles: every bulk call then takes the ordered-full-scan strategy

    def handle(self):
        cont = self.Container(self.root)
        if self.low:
            cont._MAX_CHUNK_ITERATE_LENGTH = 1  # pylint: disable=protected-access
            cont._IN_SQL_MAX_LENGTH = 2  # pylint: disable=protected-access
        return cont

    def bad(self, mech, msg):
        self.problems.append((mech, msg))

    # -- packer ---------------------------------------------------------------------------------------
    def packer_cycle(self, cont, mode='no', clpp=False, cycles=1):
        from disk_objectstore import CompressMode  # pylint: disable=import-outside-toplevel

        for _ in range(cycles):
            cont.pack_all_loose(compress=CompressMode(mode), clean_loose_per_pack=clpp)
            cont.clean_storage()
            self.counters['packer-cycles'] += 1

    # -- reader / writer operations (each judged against the objects acknowledged when it STARTED) -------
    def client_op(self, cont, kind, who='reader'):  # noqa: C901
        acked = dict(self.acked)  # snapshot at call start (logical time: nobody else runs between this and the call)
        keys = list(acked)
        self.counters[f'op:{kind}'] += 1
        try:
            if kind == 'single':
                for k in keys:
                    got = cont.get_object_content(k)
                    if got != acked[k]:
                        self.bad('concurrent:wrong-bytes:single', f'{who}: get_object_content({k[:10]}) returned {len(got)} bytes, stored {len(acked[k])}')
            elif kind == 'bulk':
                got = cont.get_objects_content(keys, skip_if_missing=False)
                for k in keys:
                    if got.get(k) != acked[k]:
                        what = 'missing' if got.get(k) is None else f'{len(got[k])} wrong bytes'
                        self.bad('concurrent:bulk-read', f'{who}: get_objects_content reports {k[:10]} as {what}')
            elif kind == 'meta':
                got = dict(cont.get_objects_meta(keys, skip_if_missing=True))
                for k in keys:
                    if k not in got:
                        self.bad('concurrent:meta-missing', f'{who}: get_objects_meta misses acknowledged {k[:10]}')
                    elif got[k].size != len(acked[k]):
                        self.bad('concurrent:meta-size', f'{who}: size {got[k].size} != {len(acked[k])} for {k[:10]}')
            elif kind == 'has':
                got = cont.has_objects(keys)
                for k, g in zip(keys, got):
                    if not g:
                        self.bad('concurrent:reported-missing', f'{who}: has_objects says acknowledged {k[:10]} is missing')
            elif kind == 'chunks':
                for k in keys[:4]:
                    parts = []
                    with cont.get_object_stream(k) as stream:
                        while True:
                            part = stream.read(700)
                            if not part:
                                break
                            parts.append(part)
                    if b''.join(parts) != acked[k]:
                        self.bad('concurrent:wrong-bytes:chunks', f'{who}: chunked read of {k[:10]} differs')
            elif kind == 'seek':
                for k in self.zkeys:
                    data = acked[k]
                    with cont.get_object_stream(k) as stream:
                        head = stream.read(30)
                        stream.seek(-10, 1)  # backwards in a compressed packed object: forces re-loosening
                        rest = stream.read()
                    if head + rest[10:] != data or rest[:10] != data[20:30]:
                        self.bad('concurrent:wrong-bytes:seek', f'{who}: seeking read of compressed {k[:10]} differs')
            elif kind == 'bulkseek':
                # one bulk call over several objects, then a seeking read on every yielded stream (an object packed+compressed
                # meanwhile is served through its re-loosened copy)
                seen = 0
                with cont.get_objects_stream_and_meta(keys, skip_if_missing=False) as triplets:
                    for k, stream, meta in triplets:
                        seen += 1
                        data = acked[k]
                        if stream is None:
                            self.bad('concurrent:reported-missing', f'{who}: bulk stream read reports acknowledged {k[:10]} as missing')
                            continue
                        head = stream.read(5)
                        if len(data) >= 5:
                            stream.seek(-3, 1)
                            mid = stream.read(10)
                            stream.seek(-min(7, len(data)), 2)
                            tail = stream.read()
                            ok = head == data[:5] and mid == data[2:12] and tail == data[-min(7, len(data)):]
                        else:
                            ok = head == data
                        if not ok or meta.size != len(data):
                            self.bad('concurrent:wrong-bytes:bulkseek', f'{who}: seeking read inside a bulk read returned other bytes (or a wrong size) for {k[:10]}')
                if seen != len(keys):
                    self.bad('concurrent:bulk-read', f'{who}: bulk stream read yielded {seen} of {len(keys)} keys')
            elif kind == 'write-new':
                self.nnew += 1
                d = gen.content(['text', 400 + self.nnew, 777000 + self.nnew * 13 + len(self.acked)])
                k = cont.add_object(d)
                if k != _H(d):
                    self.bad('concurrent:wrong-key', f'{who}: add_object returned {k[:10]} for content hashing to {_H(d)[:10]}')
                self.acked[_H(d)] = d  # acknowledged from now on
            elif kind == 'write-dup':
                k0 = keys[len(keys) // 2]
                k = cont.add_object(acked[k0])
                if k != k0:
                    self.bad('concurrent:wrong-key', f'{who}: re-adding known content returned {k[:10]} instead of {k0[:10]}')
            else:
                raise ValueError(kind)
        except Exception as exc:  # noqa: BLE001 - readers and writers must never be disturbed
            import traceback  # pylint: disable=import-outside-toplevel

            self.bad(f'concurrent:raised:{kind}:{type(exc).__name__}', f'{who}: {kind} raised {exc!r} :: {traceback.format_exc()[-400:]}')

    def final_check(self):
        cont = self.handle()
        try:
            got = cont.get_objects_content(list(self.acked), skip_if_missing=False)
            for k, d in self.acked.items():
                if got.get(k) != d:
                    self.bad('concurrent:final-state', f'after everything finished {k[:10]} is {"missing" if got.get(k) is None else "wrong"}')
        except Exception as exc:  # noqa: BLE001
            self.bad('concurrent:final-state', f'final read raised {exc!r}')
        finally:
            cont.close()


def _H(data):  # noqa: N802
    import hashlib  # pylint: disable=import-outside-toplevel

    return hashlib.sha256(data).hexdigest()


def mechanisms(events, counters, who):
    """Evidence that the dangerous windows were entered, from the actor's own event trace."""
    selects = [i for i, e in enumerate(events) if e.kind == 'sql:SELECT']
    loose_touch = [i for i, e in enumerate(events) if e.cls == 'loose' and e.kind in ('open-r', 'stat')]
    if len(selects) >= 2 and loose_touch and selects[-1] > loose_touch[0]:
        counters[f'{who}:index-requery-after-loose-miss'] += 1


# ------------------------------------------------------------------------------------ layer 1
def _pin(cont, arena):
    cont.has_objects(list(arena.acked)[:1])  # leaves a read transaction open: snapshot pinned


def run_depth1(case):  # noqa: C901
    """Worker. case: {'direction': 'probe-in-packer'|'packer-in-client', 'mode', 'clpp', 'probe', 'pinned', 'seed'}"""
    base = common.mkscratch('c04-')
    counters, vios, seen = Counter(), [], set()
    sample = None
    try:
        tmpl = Arena.build(os.path.join(base, 'tmpl'), seed=case['seed'], pack_target=case.get('pack_target', 4 * 1024 ** 3))
        mode, clpp, probe, pinned = case['mode'], case['clpp'], case['probe'], case['pinned']

        def one(k):
            arena = Arena(os.path.join(base, f'r{k}'), template=tmpl)
            packer = arena.handle()
            arena.low = bool(case.get('low'))
            if arena.low:
                counters['depth1-cases-with-full-scan-lookups'] += 1
            client = arena.handle()
            if pinned:
                _pin(client, arena)
            rec = iotrace.Recorder()
            fired = {}
            if case['direction'] == 'probe-in-packer':
                def inner(ev):
                    fired['at'] = ev.brief()
                    h = client if pinned else arena.handle()
                    arena.client_op(h, probe, who=f'{"pinned" if pinned else "fresh"} client at packer boundary {k}')
                    if not pinned:
                        h.close()
                plan = iotrace.ProbeAt(k, inner, recorder=rec)
                iotrace.install([arena.root], plan=plan, audit=False)
                try:
                    arena.packer_cycle(packer, mode, clpp)
                finally:
                    iotrace.uninstall()
                main_events = [e for e in rec.events if e.actor == 'main']
                probe_events = [e for e in rec.events if e.actor == 'probe']
                mechanisms(probe_events, counters, 'client')
                if fired:
                    before = main_events[:k]
                    committed = any(e.kind == 'sql:commit' for e in before)
                    removed = any(e.kind in ('remove', 'unlink') and e.cls == 'loose' for e in before)
                    wrote = any(e.kind == 'write' and e.cls == 'packs' for e in before)
                    if wrote and not committed:
                        counters['probe-between-pack-write-and-commit'] += 1
                    if committed and not removed:
                        counters['probe-between-commit-and-unlink'] += 1
                    if removed:
                        counters['probe-after-some-loose-unlinked'] += 1
            else:
                def inner(ev):
                    fired['at'] = ev.brief()
                    arena.packer_cycle(packer, mode, clpp)
                plan = iotrace.ProbeAt(k, inner, recorder=rec)
                iotrace.install([arena.root], plan=plan, audit=False)
                try:
                    arena.client_op(client, probe, who=f'{"pinned" if pinned else "fresh"} client with a whole pack+clean at its boundary {k}')
                finally:
                    iotrace.uninstall()
                main_events = [e for e in rec.events if e.actor == 'main']
                mechanisms(main_events, counters, 'client')
                if fired and any(e.kind == 'open-r' and e.cls == 'loose' for e in main_events[k:]) is False and \
                        any(e.cls == 'loose' for e in main_events[:k]):
                    counters['packer-ran-inside-client-critical-section'] += 1
            arena.final_check()
            packer.close()
            client.close()
            counters.update(arena.counters)
            counters['depth1-cases'] += 1
            n_main = len(main_events)
            for mech, msg in arena.problems[:2]:
                vios.append(common.violation(mech, f'[{case["direction"]} pack_all_loose({mode},clpp={clpp})+clean, probe={probe}, '
                                                   f'boundary {k}: {fired.get("at")}] {msg}', {'depth1': {**case, 'only_k': k}}))
            common.rmtree(arena.root)
            return n_main, bool(fired), [e.brief() for e in main_events[:80]]

        if case.get('only_k') is not None:
            n, fired, ev = one(case['only_k'])
        else:
            n, fired, ev = one(10 ** 9)  # dry run: probe never fires, counts the boundaries
            counters['depth1-cases'] -= 1
            for k in range(n):
                _n, fired, _ev = one(k)
                if fired:
                    seen.add(k)
                if len(vios) >= 6:
                    break
            counters['boundaries-enumerated'] += n
            sample = {'direction': case['direction'], 'packer': [mode, clpp], 'probe': probe, 'pinned': pinned,
                      'boundaries_of_main_actor': ev[:70]}
        res = common.case_result(sig=common.digest(case), nontrivial=True, counters=counters, violations=vios, sample=sample)
        res['distinct'] = len(seen)
        res['evaluations'] = max(1, counters['depth1-cases'])
        return res
    finally:
        iotrace.uninstall()
        common.rmtree(base)


# ------------------------------------------------------------------------------------ layers 2 and 3
def _threaded(arena, actors, picker, counters):
    """Run actor callables under the scheduler; returns (sched|None, inconclusive|None)."""
    try:
        s = sched.run_actors([arena.root], actors, picker, watchdog_s=60.0)
    except sched.Deadlock as exc:
        return None, f'watchdog: {exc}'
    for name, (exc, tb) in s.errors().items():
        arena.bad(f'concurrent:actor-crashed:{name.rstrip("0123456789")}', f'{name} raised {exc!r} :: {tb[-400:]}')
    counters['scheduled-runs'] += 1
    counters['scheduling-steps'] += len(s.picks)
    return s, None


def run_depth2(case):  # noqa: C901
    """Worker: reader paused at its boundary j, packer advanced k1..k2, reader finished, packer finished."""
    base = common.mkscratch('c04-')
    counters, vios, traces = Counter(), [], set()
    sample = None
    inconclusive = None
    try:
        tmpl = Arena.build(os.path.join(base, 'tmpl'), seed=case['seed'])
        mode, clpp, probe = case['mode'], case['clpp'], case['probe']
        # count the boundaries of both actors in isolation
        def count(fn_name):
            arena = Arena(os.path.join(base, 'cnt'), template=tmpl)
            h = arena.handle()
            rec = iotrace.Recorder()
            iotrace.install([arena.root], plan=rec, audit=False)
            try:
                if fn_name == 'P':
                    arena.packer_cycle(h, mode, clpp)
                else:
                    arena.client_op(h, probe)
            finally:
                iotrace.uninstall()
            h.close()
            common.rmtree(arena.root)
            return len(rec.events)

        nP, nR = count('P'), count('R')  # noqa: N806
        rnd = random.Random(case['seed'])
        triples = [(j, k1, k2) for j in range(nR) for k1 in range(0, nP, case.get('stride', 1)) for k2 in range(k1, nP + 1, case.get('stride', 1))]
        if case.get('limit') and len(triples) > case['limit']:
            triples = rnd.sample(triples, case['limit'])
        if case.get('only') is not None:
            triples = [tuple(case['only'])]
        for idx, (j, k1, k2) in enumerate(triples):
            arena = Arena(os.path.join(base, f'd{idx}'), template=tmpl)
            box = {}

            def packer():
                h = arena.handle()
                try:
                    arena.packer_cycle(h, mode, clpp)
                finally:
                    h.close()

            def reader():
                h = arena.handle()
                box['h'] = h
                try:
                    arena.client_op(h, probe, who=f'client paused at its boundary {j} while the packer ran boundaries {k1}..{k2}')
                finally:
                    h.close()

            picker = sched.script_picker([('P', k1), ('R', j), ('P', k2 - k1), ('R', None), ('P', None)])
            s, inc = _threaded(arena, {'P': packer, 'R': reader}, picker, counters)
            if inc:
                inconclusive = inc
                break
            arena.final_check()
            traces.add(hash(tuple(s.trace)))
            counters['depth2-cases'] += 1
            for mech, msg in arena.problems[:2]:
                vios.append(common.violation(mech, f'[depth-2 pack_all_loose({mode},clpp={clpp})+clean vs {probe}, j={j} k1={k1} k2={k2}] {msg}',
                                             {'depth2': {**case, 'only': [j, k1, k2]}, 'picks': s.picks}))
            if sample is None and j > 0 and k2 > k1:
                sample = {'script': f'P x{k1}, R x{j}, P x{k2 - k1}, R to end, P to end', 'probe': probe, 'trace': [f'{a}:{l}' for a, l in s.trace[:60]]}
            common.rmtree(arena.root)
            if len(vios) >= 6:
                break
        res = common.case_result(sig=common.digest(case), nontrivial=True, counters=counters, violations=vios, sample=sample,
                                 inconclusive=inconclusive)
        res['distinct'] = len(traces)
        res['evaluations'] = max(1, counters['depth2-cases'])
        return res
    finally:
        iotrace.uninstall()
        common.rmtree(base)


def run_random(case):  # noqa: C901
    """Worker: a batch of random / PCT schedules with W writers, R readers and one packer."""
    base = common.mkscratch('c04-')
    counters, vios, traces = Counter(), [], set()
    sample = None
    inconclusive = None
    try:
        for i in range(case['n']):
            seed = case['seed'] * 1000 + i
            rnd = random.Random(seed)
            if case.get('explicit'):
                conf = case['explicit']
            else:
                conf = {'seed': seed, 'W': rnd.randint(1, 3), 'R': rnd.randint(1, 3), 'cycles': rnd.randint(1, 3),
                        'mode': rnd.choice(['no', 'yes', 'auto']), 'clpp': rnd.random() < 0.5,
                        'target': rnd.choice([500, 4 * 1024 ** 3]), 'picker': rnd.choice(['random', 'random', 'pct']),
                        'switch_p': rnd.choice([0.05, 0.2, 0.5]), 'picks': None}
            crnd = random.Random(conf['seed'])
            arena = Arena.build(os.path.join(base, f'a{i}'), seed=conf['seed'] % 50, nloose=crnd.randint(3, 7), pack_target=conf['target'])
            actors = {}

            def mk_packer():
                def fn():
                    h = arena.handle()
                    try:
                        arena.packer_cycle(h, conf['mode'], conf['clpp'], cycles=conf['cycles'])
                    finally:
                        h.close()
                return fn

            def mk_client(name, kinds, longopen):
                def fn():
                    h = arena.handle() if longopen else None
                    try:
                        for kind in kinds:
                            hh = h or arena.handle()
                            arena.client_op(hh, kind, who=name)
                            if h is None:
                                hh.close()
                    finally:
                        if h is not None:
                            h.close()
                return fn

            actors['P'] = mk_packer()
            for w in range(conf['W']):
                kinds = [crnd.choice(WRITE_KINDS) for _ in range(crnd.randint(1, 4))]
                actors[f'W{w}'] = mk_client(f'W{w}', kinds, crnd.random() < 0.5)
            for r in range(conf['R']):
                kinds = [crnd.choice(READ_KINDS) for _ in range(crnd.randint(1, 4))]
                actors[f'R{r}'] = mk_client(f'R{r}', kinds, crnd.random() < 0.5)
            if conf.get('picks'):
                picker = sched.replay_picker(conf['picks'])
            elif conf['picker'] == 'pct':
                picker = sched.pct_picker(random.Random(seed + 1), len(actors), depth=crnd.randint(1, 4), horizon=400)
            else:
                picker = sched.random_picker(random.Random(seed + 1), conf['switch_p'])
            s, inc = _threaded(arena, actors, picker, counters)
            if inc:
                inconclusive = inc
                break
            arena.final_check()
            traces.add(hash(tuple(s.trace)))
            counters.update(arena.counters)
            counters['random-schedules'] += 1
            switches = sum(1 for a, b in zip(s.picks, s.picks[1:]) if a != b)
            counters['context-switches'] += switches
            for mech, msg in arena.problems[:2]:
                vios.append(common.violation(mech, f'[random schedule seed {conf["seed"]}: {conf["W"]} writers, {conf["R"]} readers, packer '
                                                   f'{conf["mode"]}/clpp={conf["clpp"]} x{conf["cycles"]}] {msg}',
                                             {'random': {**conf, 'picks': s.picks}}))
            if sample is None:
                sample = {'actors': sorted(actors), 'conf': {k: v for k, v in conf.items() if k != 'picks'},
                          'trace_head': [f'{a}:{l}' for a, l in s.trace[:50]], 'steps': len(s.picks), 'switches': switches}
            common.rmtree(arena.root)
            if len(vios) >= 6 or case.get('explicit'):
                break
        res = common.case_result(sig=f'rnd{case["seed"]}', nontrivial=True, counters=counters, violations=vios, sample=sample,
                                 inconclusive=inconclusive)
        res['distinct'] = len(traces)
        res['evaluations'] = max(1, counters['random-schedules'])
        return res
    finally:
        iotrace.uninstall()
        common.rmtree(base)


# ------------------------------------------------------------------------------------ layer 4: real processes
def run_multiprocess(case):  # noqa: C901
    """Worker: writers, readers and one packer as REAL processes running in parallel, with small seeded delays injected at the
    interposed I/O events.  Cross-checks the threads-for-processes assumption of the scheduler with genuinely concurrent SQLite/FS
    access.  Acknowledgement is real-time: a writer appends (spec) to its ack log after add_object returned; a reader loads all ack
    logs right before each call."""
    import json  # pylint: disable=import-outside-toplevel
    import time  # pylint: disable=import-outside-toplevel

    base = common.mkscratch('c04mp-')
    counters, vios = Counter(), []
    sample = None
    try:
        for i in range(case['n']):
            seed = case['seed'] * 1000 + i
            rnd = random.Random(seed)
            arena = Arena.build(os.path.join(base, f'a{i}'), seed=seed % 50, nloose=rnd.randint(4, 8),
                                pack_target=rnd.choice([600, 4 * 1024 ** 3]))
            ackdir = os.path.join(base, f'ack{i}')
            os.makedirs(ackdir)
            conf = {'W': rnd.randint(1, 3), 'R': rnd.randint(1, 3), 'cycles': rnd.randint(1, 3), 'mode': rnd.choice(['no', 'yes', 'auto']),
                    'clpp': rnd.random() < 0.5}
            initial = dict(arena.acked)

            def child(role, idx):
                crnd = random.Random(seed * 31 + idx * 7 + hash(role) % 1000)

                def plan(_ev):
                    if crnd.random() < 0.25:
                        time.sleep(crnd.random() * 0.002)

                iotrace.install([arena.root], plan=plan, audit=False)
                local = Arena(arena.root)  # same folder, own model
                local.acked = dict(initial)
                local.zkeys = list(arena.zkeys)
                out = {'role': role, 'ops': 0}
                try:
                    h = local.handle()
                    if role == 'P':
                        local.packer_cycle(h, conf['mode'], conf['clpp'], cycles=conf['cycles'])
                    elif role == 'W':
                        with open(os.path.join(ackdir, f'W{idx}.log'), 'a', encoding='utf8') as log:
                            for _ in range(crnd.randint(2, 6)):
                                before = set(local.acked)
                                local.nnew = idx * 1000 + local.nnew
                                local.client_op(h, crnd.choice(WRITE_KINDS), who=f'W{idx}')
                                for k in set(local.acked) - before:
                                    log.write(json.dumps([k, local.acked[k].hex()]) + '\n')
                                    log.flush()
                                out['ops'] += 1
                    else:
                        for _ in range(crnd.randint(2, 6)):
                            for name in os.listdir(ackdir):  # everything acknowledged so far (real time)
                                with open(os.path.join(ackdir, name), encoding='utf8') as log:
                                    for line in log:
                                        if line.endswith('\n'):
                                            k, hx = json.loads(line)
                                            local.acked[k] = bytes.fromhex(hx)
                            if crnd.random() < 0.5:
                                h.close()
                                h = local.handle()
                            local.client_op(h, crnd.choice(READ_KINDS), who=f'R{idx}')
                            out['ops'] += 1
                    h.close()
                finally:
                    iotrace.uninstall()
                out['problems'] = [list(p) for p in local.problems[:3]]
                out['counters'] = dict(local.counters)
                return out

            import multiprocessing as mp  # pylint: disable=import-outside-toplevel

            roles = [('P', 0)] + [('W', j) for j in range(conf['W'])] + [('R', j) for j in range(conf['R'])]
            ctx = mp.get_context('fork')
            queue = ctx.SimpleQueue()

            def entry(role, idx):
                try:
                    queue.put(child(role, idx))
                except BaseException as exc:  # noqa: BLE001
                    import traceback  # pylint: disable=import-outside-toplevel

                    queue.put({'role': role, 'crash': f'{exc!r} :: {traceback.format_exc()[-400:]}'})
                finally:
                    os._exit(0)

            procs = [ctx.Process(target=entry, args=r) for r in roles]
            for p in procs:
                p.start()
            results = []
            deadline = time.time() + 120
            while len(results) < len(procs) and time.time() < deadline:
                if not queue.empty():
                    results.append(queue.get())
                else:
                    time.sleep(0.005)
            for p in procs:
                p.join(timeout=5)
                if p.is_alive():
                    p.kill()
            if len(results) < len(procs):
                return common.case_result('mp', False, counters=counters, inconclusive='watchdog: a multi-process run did not finish within 120 s')
            all_acked = dict(initial)
            for name in os.listdir(ackdir):
                with open(os.path.join(ackdir, name), encoding='utf8') as log:
                    for line in log:
                        k, hx = json.loads(line)
                        all_acked[k] = bytes.fromhex(hx)
            arena.acked = all_acked
            arena.final_check()
            counters['multi-process-runs'] += 1
            counters['processes'] += len(procs)
            for res in results:
                if res.get('crash'):
                    arena.bad(f'concurrent:process-crashed:{res["role"]}', res['crash'])
                for mech, msg in res.get('problems', []):
                    arena.bad(mech, msg)
                counters['multi-process-client-ops'] += res.get('ops', 0)
                for k, v in (res.get('counters') or {}).items():
                    counters[k] += v
            for mech, msg in arena.problems[:2]:
                vios.append(common.violation(mech, f'[multi-process run seed {seed}: {conf}] {msg}', {'multiprocess': {'seed': case['seed'], 'n': case['n'], 'index': i}}))
            if sample is None:
                sample = {'processes': [f'{r}{j}' for r, j in roles], 'conf': conf, 'acknowledged_objects': len(all_acked)}
            common.rmtree(arena.root)
            if len(vios) >= 6:
                break
        res = common.case_result(sig=f'mp{case["seed"]}', nontrivial=True, counters=counters, violations=vios, sample=sample)
        res['distinct'] = counters['multi-process-runs']
        res['evaluations'] = max(1, counters['multi-process-runs'])
        return res
    finally:
        iotrace.uninstall()
        common.rmtree(base)


for _fn in (run_depth1, run_depth2, run_random, run_multiprocess):
    _fn.case_timeout = 3000  # generous per-case wall-clock watchdog (inconclusive when it fires, never a verdict)
