"""Workers shared by C05 (crash), C06 (power loss) and C17 (single fault): one call = one variant, every boundary."""
from __future__ import annotations

import os
from collections import Counter

from . import common, crashlab, variants

FAULT_KINDS = {
    'open-w', 'open-r', 'write', 'flush', 'truncate', 'close-w', 'fsync', 'fdatasync', 'fcntl', 'rename', 'replace', 'link',
    'unlink', 'remove', 'mkdir', 'os.open', 'listdir', 'read',
    'sql:INSERT', 'sql:UPDATE', 'sql:DELETE', 'sql:VACUUM', 'sql:COMMIT', 'sql:commit', 'sql:SELECT',
}


FAULT_KINDS_QUICK = FAULT_KINDS - {'read', 'listdir', 'os.open'}
FAULT_QUICK_VARIANTS = (
    'add_object:new@', 'add_streamed:multichunk@', 'seek_read:reloosen@', 'pack_all_loose:yes:clpp=1@',
    'pack_all_loose:no:clpp=1:multipack@', 'clean_storage@', 'add_objects_to_pack:z=1:nh1@',
    'add_objects_to_pack:z=0:nh1:multipack@', 'import:diff-hash:tmb-small@', 'delete:both-forms@', 'repack:keep@',
    'add_streamed_object_to_pack:big@',
)


def errnames_for(kind: str, tier: str):
    if kind.startswith('sql:'):
        return ['SQL']
    if kind in ('rename', 'replace', 'remove', 'unlink', 'link'):
        return ['EACCES', 'EIO'] if tier == 'thorough' else ['EACCES']
    if kind in ('write', 'flush', 'close-w', 'truncate'):
        return ['ENOSPC', 'EIO'] if tier == 'thorough' else ['ENOSPC']
    if kind in ('open-r', 'open-w'):
        return ['EIO', 'EACCES'] if tier == 'thorough' else ['EIO']
    return ['EIO']


def _prepare(case):
    base = common.mkscratch('crash-')
    tmpl = crashlab.Template(base, case['variant'])
    status, dry = crashlab.dry_run(tmpl)
    return base, tmpl, status, dry


def _sample(case, events, extra=None):
    out = {'variant': case['variant']['name'], 'op': [o['op'] for o in (case['variant']['op'] if isinstance(case['variant']['op'], list) else [case['variant']['op']])],
           'boundaries': [e['brief'] for e in events if e['mutating']][:60]}
    out.update(extra or {})
    return out


def run_crash_variant(case):  # noqa: C901
    """C05 / C06 worker. case: {'variant':..., 'mode': 'crash'|'powerloss', 'prop':...}"""
    mode = case['mode']
    tag = 'crash' if mode == 'crash' else 'powerloss'
    name = case['variant']['name']
    base = None
    counters, vios = Counter(), []
    try:
        base, tmpl, status, dry = _prepare(case)
        if status != 'ok' or dry.get('raised'):
            return common.case_result(name, False, inconclusive=f'dry run of {name} failed: {status} {dry}')
        if dry.get('blind'):
            return common.case_result(name, False, inconclusive=f'shim blind spot in {name}: {dry["blind"][:3]}')
        events = dry['events']
        muts = [e for e in events if e['mutating']]
        n = len(muts)
        counters['variants'] += 1
        counters['boundaries'] += n
        for e in muts:
            counters[f'boundary:{e["kind"]}'] += 1
        shapes = set()
        for k in range(n + 1):
            rundir, st, crash_ev, pre_inodes, res = crashlab.crash_run(tmpl, k, snapshots=(mode == 'powerloss'))
            try:
                if k < n:
                    if st != f'exit:{crashlab.CRASH_EXIT}':
                        counters['inconclusive-cases'] += 1
                        return common.case_result(name, False, counters=counters, violations=vios,
                                                  inconclusive=f'{name}: crash@{k} ended with {st} {res} instead of the kill')
                    if not crash_ev or crash_ev['shape'] != muts[k]['shape']:
                        return common.case_result(name, False, counters=counters, violations=vios,
                                                  inconclusive=f'{name}: crash@{k} hit {crash_ev} but the dry run had {muts[k]["brief"]} (drift)')
                    counters['kills'] += 1
                    where = muts[k]['brief']
                else:
                    if st != 'ok' or (res or {}).get('raised'):
                        return common.case_result(name, False, counters=counters, violations=vios,
                                                  inconclusive=f'{name}: control run (no crash) ended with {st} {res}')
                    counters['control-runs'] += 1
                    where = '<after the last boundary>'
                if mode == 'powerloss':
                    stats = crashlab.powerloss_image(tmpl, rundir, pre_inodes)
                    counters.update({f'image:{a}': b for a, b in stats.items()})
                probs, cnt = crashlab.disk_oracle(tmpl, rundir, tag)
                counters.update(cnt)
                counters['oracle-evaluations'] += 1
                shapes.add((k, muts[k]['shape'] if k < n else 'end'))
                for mech, msg in probs[:3]:
                    mech_full = f'{mech}:{name.split("@")[0]}'
                    vios.append(common.violation(mech_full, f'{name}: {tag} right before boundary {k}/{n} {where}: {msg}',
                                                 {'variant': case['variant'], 'k': k, 'mode': mode, 'boundary': where,
                                                  'boundaries': [e['brief'] for e in muts]}))
                if probs:
                    counters['violating-cases'] += 1
            finally:
                common.rmtree(rundir)
            if len(vios) >= 12:
                break
        return common.case_result(sig=name, nontrivial=n >= 2, counters=counters, violations=vios,
                                  sample=_sample(case, events, {'n_boundaries': n}),
                                  extra={'name': name, 'n': n})
    finally:
        if base:
            common.rmtree(base)


def run_fault_variant(case):  # noqa: C901
    """C17 worker: every eligible event of the variant fails once (per errno class)."""
    name = case['variant']['name']
    tier = case.get('tier', 'quick')
    base = None
    counters, vios = Counter(), []
    try:
        base, tmpl, status, dry = _prepare(case)
        if status != 'ok' or dry.get('raised'):
            return common.case_result(name, False, inconclusive=f'dry run of {name} failed: {status} {dry}')
        if dry.get('blind'):
            return common.case_result(name, False, inconclusive=f'shim blind spot in {name}: {dry["blind"][:3]}')
        events = dry['events']
        kinds = FAULT_KINDS if tier == 'thorough' else FAULT_KINDS_QUICK
        elig = [e for e in events if e['kind'] in kinds]
        counters['variants'] += 1
        counters['fault-points'] += len(elig)
        is_repack = case['variant'].get('is_repack')
        for k, ev in enumerate(elig):
            for errname in errnames_for(ev['kind'], tier):
                rundir, st, res = crashlab.fault_run(tmpl, k, errname, kinds)
                try:
                    if st != 'ok' or res is None:
                        return common.case_result(name, False, counters=counters, violations=vios,
                                                  inconclusive=f'{name}: fault@{k} child ended with {st} {res}')
                    if res.get('fired_shape') != ev['shape']:
                        return common.case_result(name, False, counters=counters, violations=vios,
                                                  inconclusive=f'{name}: fault@{k} fired at {res.get("fired")} but the dry run had {ev["brief"]} (drift)')
                    counters['faults-injected'] += 1
                    counters[f'fault:{ev["kind"]}:{errname}'] += 1
                    outcome = 'raised' if res['raised'] else 'completed'
                    counters[f'outcome:{outcome}'] += 1
                    if res['raised']:
                        counters[f'raised:{res["raised_type"]}'] += 1
                    where = f'{ev["brief"]} failing with {errname}'
                    replay = {'variant': case['variant'], 'k': k, 'errname': errname, 'event': ev['brief'], 'mode': 'fault',
                              'events': [e['brief'] for e in elig]}
                    probs = [(m, g) for m, g in map(tuple, res.get('problems') or [])]
                    # the faulted call itself returned wrong keys etc.
                    probs = [(f'fault:{m}', g) for m, g in probs]
                    oprobs, cnt = crashlab.disk_oracle(tmpl, rundir, 'fault')
                    counters.update(cnt)
                    probs += oprobs
                    counters['oracle-evaluations'] += 1
                    interrupted_repack = is_repack and res['raised']
                    if not interrupted_repack:
                        rst, rres = crashlab.rerun(tmpl, rundir)
                        counters['reruns'] += 1
                        if rst != 'ok' or rres is None:
                            probs.append(('fault:rerun-crashed', f'rerun child ended with {rst} {rres}'))
                        else:
                            if rres.get('raised'):
                                probs.append(('fault:rerun-raised', f'after the fault cleared, re-running the operation on a new '
                                                                    f'handle raised {rres["raised"]}'))
                            for m, g in map(tuple, rres.get('problems') or []):
                                probs.append((f'fault:rerun:{m}', g))
                    else:
                        counters['interrupted-repacks-not-rerun'] += 1
                    for mech, msg in probs[:3]:
                        vios.append(common.violation(f'{mech}:{name.split("@")[0]}', f'{name}: {where} '
                                                     f'(operation {outcome}: {res["raised"]}): {msg}', replay))
                    if probs:
                        counters['violating-cases'] += 1
                finally:
                    common.rmtree(rundir)
            if len(vios) >= 12:
                break
        return common.case_result(sig=name, nontrivial=len(elig) >= 2, counters=counters, violations=vios,
                                  sample=_sample(case, events, {'n_fault_points': len(elig)}))
    finally:
        if base:
            common.rmtree(base)


run_crash_variant.case_timeout = 1500
run_fault_variant.case_timeout = 2400


def variant_cases(ctx, prop, mode, default_fsync_only=False):
    vs = variants.variants(ctx.tier, default_fsync_only=default_fsync_only)
    if mode == 'fault' and ctx.tier == 'quick':
        vs = [v for v in vs if v['name'].startswith(FAULT_QUICK_VARIANTS)]
    return [{'prop': prop, 'variant': v, 'mode': mode, 'tier': ctx.tier, 'name': v['name'], 'timeout': 2400} for v in vs]
