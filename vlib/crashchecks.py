"""Workers shared by C05 (crash), C06 (power loss) and C17 (single fault): one call = one variant, every boundary."""
from __future__ import annotations

import os
from collections import Counter

from . import common, crashlab, variants

FAULT_KINDS = {
    'open-w', 'open-r', 'write', 'flush', 'truncate', 'close-w', 'fsync', 'fdatasync', 'fcntl', 'rename', 'replace', 'link',
    'unlink', 'remove', 'mkdir', 'os.open', 'listdir', 'read',
    'sql:INSERT', 'sql:UPDATE', 'sql:DELETE', 'sql:VACUUM', 'sql:COMMIT', 'sql:commit', 'sql:SELECT',
}


FAULT_KINDS_QUICK = FAULT_KINDS - {'read', 'listdir', 'os.open'}
FAULT_QUICK_VARIANTS = (
    'add_object:new@', 'add_object:readd-damaged-loose-copy@', 'add_streamed:multichunk@', 'seek_read:reloosen@', 'pack_all_loose:yes:clpp=1@',
    'pack_all_loose:no:clpp=1:multipack@', 'clean_storage@', 'add_objects_to_pack:z=1:nh1@',
    'add_objects_to_pack:z=0:nh1:multipack@', 'import:diff-hash:tmb-small@', 'delete:both-forms@', 'repack:keep:holes@', 'repack:yes@',
    'add_streamed_object_to_pack:big@', 'pack_all_loose:no-fsync@',
)


def errnames_for(kind: str, tier: str):
    if kind.startswith('sql:'):
        return ['SQL']
    if kind in ('rename', 'replace', 'remove', 'unlink', 'link'):
        return ['EACCES', 'EIO'] if tier == 'thorough' else ['EACCES']
    if kind in ('write', 'flush', 'close-w', 'truncate'):
        return ['ENOSPC', 'EIO'] if tier == 'thorough' else ['ENOSPC']
    if kind == 'open-w':
        return ['EIO', 'EACCES'] if tier == 'thorough' else ['EIO']
    if kind == 'open-r':
        return ['EIO']
    if kind == 'read':  # a lock violation while reading (the library handles PermissionError in some loops) or a media error
        return ['EACCES', 'EIO'] if tier == 'thorough' else ['EACCES']
    return ['EIO']


def _prepare(case):
    base = common.mkscratch('crash-')
    tmpl = crashlab.Template(base, case['variant'])
    status, dry = crashlab.dry_run(tmpl)
    return base, tmpl, status, dry


def _sample(case, events, extra=None):
    out = {'variant': case['variant']['name'], 'op': [o['op'] for o in (case['variant']['op'] if isinstance(case['variant']['op'], list) else [case['variant']['op']])],
           'boundaries': [e['brief'] for e in events if e['mutating']][:60]}
    out.update(extra or {})
    return out


def run_crash_variant(case):  # noqa: C901
    """C05 / C06 worker. case: {'variant':..., 'mode': 'crash'|'powerloss', 'prop':...}"""
    mode = case['mode']
    tag = 'crash' if mode == 'crash' else 'powerloss'
    name = case['variant']['name']
    base = None
    counters, vios = Counter(), []
    try:
        base, tmpl, status, dry = _prepare(case)
        if status != 'ok' or dry.get('raised'):
            return common.case_result(name, False, inconclusive=f'dry run of {name} failed: {status} {dry}')
        if dry.get('blind'):
            return common.case_result(name, False, inconclusive=f'shim blind spot in {name}: {dry["blind"][:3]}')
        events = dry['events']
        muts = [e for e in events if e['mutating']]
        n = len(muts)
        counters['variants'] += 1
        counters['boundaries'] += n
        for e in muts:
            counters[f'boundary:{e["kind"]}'] += 1
        shapes = set()
        for k in range(n + 1):
            rundir, st, crash_ev, pre_inodes, res = crashlab.crash_run(tmpl, k, snapshots=(mode == 'powerloss'))
            try:
                if k < n:
                    if st != f'exit:{crashlab.CRASH_EXIT}':
                        counters['inconclusive-cases'] += 1
                        return common.case_result(name, False, counters=counters, violations=vios,
                                                  inconclusive=f'{name}: crash@{k} ended with {st} {res} instead of the kill')
                    if not crash_ev or crash_ev['shape'] != muts[k]['shape']:
                        return common.case_result(name, False, counters=counters, violations=vios,
                                                  inconclusive=f'{name}: crash@{k} hit {crash_ev} but the dry run had {muts[k]["brief"]} (drift)')
                    counters['kills'] += 1
                    where = muts[k]['brief']
                else:
                    if st != 'ok' or (res or {}).get('raised'):
                        return common.case_result(name, False, counters=counters, violations=vios,
                                                  inconclusive=f'{name}: control run (no crash) ended with {st} {res}')
                    counters['control-runs'] += 1
                    where = '<after the last boundary>'
                if mode == 'powerloss':
                    stats = crashlab.powerloss_image(tmpl, rundir, pre_inodes)
                    counters.update({f'image:{a}': b for a, b in stats.items()})
                probs, cnt = crashlab.disk_oracle(tmpl, rundir, tag)
                counters.update(cnt)
                counters['oracle-evaluations'] += 1
                shapes.add((k, muts[k]['shape'] if k < n else 'end'))
                for mech, msg in probs[:3]:
                    mech_full = f'{mech}:{name.split("@")[0]}'
                    vios.append(common.violation(mech_full, f'{name}: {tag} right before boundary {k}/{n} {where}: {msg}',
                                                 {'variant': case['variant'], 'k': k, 'mode': mode, 'boundary': where,
                                                  'boundaries': [e['brief'] for e in muts]}))
                if probs:
                    counters['violating-cases'] += 1
            finally:
                common.rmtree(rundir)
            if len(vios) >= 12:
                break
        res = common.case_result(sig=name, nontrivial=n >= 2, counters=counters, violations=vios,
                                 sample=_sample(case, events, {'n_boundaries': n}),
                                 extra={'name': name, 'n': n})
        res['distinct'] = len(shapes)  # distinct (variant, boundary) placements whose post-mortem state was judged
        res['evaluations'] = max(1, counters['oracle-evaluations'])
        return res
    finally:
        if base:
            common.rmtree(base)


def run_fault_variant(case):  # noqa: C901
    """C17 worker: every eligible event of the variant fails once (per errno class)."""
    name = case['variant']['name']
    tier = case.get('tier', 'quick')
    base = None
    counters, vios = Counter(), []
    try:
        base, tmpl, status, dry = _prepare(case)
        if status != 'ok' or dry.get('raised'):
            return common.case_result(name, False, inconclusive=f'dry run of {name} failed: {status} {dry}')
        if dry.get('blind'):
            return common.case_result(name, False, inconclusive=f'shim blind spot in {name}: {dry["blind"][:3]}')
        events = dry['events']
        kinds = FAULT_KINDS if tier == 'thorough' else FAULT_KINDS_QUICK
        if tier != 'thorough' and name.startswith(('pack_all_loose', 'add_object:readd-damaged')):
            kinds = kinds | {'read'}  # reads of the loose files being packed (multi-chunk objects: up to three reads each)
        elig = [e for e in events if e['kind'] in kinds]
        counters['variants'] += 1
        counters['fault-points'] += len(elig)
        is_repack = case['variant'].get('is_repack')
        for k, ev in enumerate(elig):
            errs = errnames_for(ev['kind'], tier)
            if name.startswith('add_object:readd-damaged') and not ev['kind'].startswith('sql:'):
                # a PermissionError while checking or replacing the existing copy is the library's designed degraded mode (Windows
                # lock: the new copy is parked in duplicates/ for clean_storage to put in place), so only real I/O errors are injected
                errs = ['ENOSPC' if ev['kind'] in ('write', 'flush', 'close-w', 'truncate') else 'EIO']
            for errname in errs:
                rundir, st, res = crashlab.fault_run(tmpl, k, errname, kinds)
                try:
                    if st != 'ok' or res is None:
                        return common.case_result(name, False, counters=counters, violations=vios,
                                                  inconclusive=f'{name}: fault@{k} child ended with {st} {res}')
                    if res.get('fired_shape') != ev['shape']:
                        return common.case_result(name, False, counters=counters, violations=vios,
                                                  inconclusive=f'{name}: fault@{k} fired at {res.get("fired")} but the dry run had {ev["brief"]} (drift)')
                    counters['faults-injected'] += 1
                    counters[f'fault:{ev["kind"]}:{errname}'] += 1
                    outcome = 'raised' if res['raised'] else 'completed'
                    counters[f'outcome:{outcome}'] += 1
                    if res.get('followup'):
                        counters['same-handle-followups:' + res['followup'].split(' ')[0]] += 1
                    if res['raised']:
                        counters[f'raised:{res["raised_type"]}'] += 1
                    where = f'{ev["brief"]} failing with {errname}'
                    replay = {'variant': case['variant'], 'k': k, 'errname': errname, 'event': ev['brief'], 'mode': 'fault',
                              'events': [e['brief'] for e in elig]}
                    probs = [(m, g) for m, g in map(tuple, res.get('problems') or [])]
                    # the faulted call itself returned wrong keys etc.
                    probs = [(f'fault:{m}', g) for m, g in probs]
                    oprobs, cnt = crashlab.disk_oracle(tmpl, rundir, 'fault')
                    counters.update(cnt)
                    probs += oprobs
                    if not res['raised']:
                        probs += crashlab.completed_oracle(tmpl, rundir, 'fault')
                        counters['completed-outcomes-verified'] += 1
                    counters['oracle-evaluations'] += 1
                    interrupted_repack = is_repack and res['raised']
                    if not interrupted_repack:
                        rst, rres = crashlab.rerun(tmpl, rundir)
                        counters['reruns'] += 1
                        if rst != 'ok' or rres is None:
                            probs.append(('fault:rerun-crashed', f'rerun child ended with {rst} {rres}'))
                        else:
                            if rres.get('raised'):
                                probs.append(('fault:rerun-raised', f'after the fault cleared, re-running the operation on a new '
                                                                    f'handle raised {rres["raised"]}'))
                            for m, g in map(tuple, rres.get('problems') or []):
                                probs.append((f'fault:rerun:{m}', g))
                    else:
                        counters['interrupted-repacks-not-rerun'] += 1
                    for mech, msg in probs[:3]:
                        vios.append(common.violation(f'{mech}:{name.split("@")[0]}', f'{name}: {where} '
                                                     f'(operation {outcome}: {res["raised"]}): {msg}', replay))
                    if probs:
                        counters['violating-cases'] += 1
                finally:
                    common.rmtree(rundir)
            if len(vios) >= 12:
                break
        res = common.case_result(sig=name, nontrivial=len(elig) >= 2, counters=counters, violations=vios,
                                 sample=_sample(case, events, {'n_fault_points': len(elig)}))
        res['distinct'] = counters['faults-injected']  # distinct (variant, call, errno) single-fault runs
        res['evaluations'] = max(1, counters['faults-injected'])
        return res
    finally:
        if base:
            common.rmtree(base)


run_crash_variant.case_timeout = 1500
run_fault_variant.case_timeout = 2400


def variant_cases(ctx, prop, mode, default_fsync_only=False):
    vs = variants.variants(ctx.tier, default_fsync_only=default_fsync_only)
    if mode == 'fault' and ctx.tier == 'quick':
        vs = [v for v in vs if v['name'].startswith(FAULT_QUICK_VARIANTS)]
    elif mode == 'fault':
        # every fault costs two forked children and two oracle passes: at most two pre-states per operation variant in thorough
        seen, kept = {}, []
        for v in vs:
            key = v['name'].split('@')[0]
            seen[key] = seen.get(key, 0) + 1
            if seen[key] <= 2:
                kept.append(v)
        vs = kept
    return [{'prop': prop, 'variant': v, 'mode': mode, 'tier': ctx.tier, 'name': v['name'], 'timeout': 2400} for v in vs]


# ------------------------------------------------------------------------------------ E5: syscall granularity
def run_sys_variant(case):  # noqa: C901
    """Worker: kill (mode 'syskill'), errno injection ('sysfault') or the offline ordering checker ('sysorder') at real-syscall level."""
    from . import sysinject  # pylint: disable=import-outside-toplevel

    if not sysinject.available():
        return common.case_result('no-strace', False, inconclusive='strace is not installed')
    mode = case['mode']
    name = case['variant']['name']
    base = common.mkscratch('sys-')
    counters, vios = Counter(), []
    sample = None
    try:
        tmpl = crashlab.Template(base, case['variant'])
        dry = sysinject.run_traced(tmpl)
        if dry.get('error') or dry['exit'] != 0 or (dry['result'] or {}).get('raised'):
            return common.case_result(name, False, inconclusive=f'{name}: syscall dry run failed: {dry.get("error")} {dry.get("result")}')
        root = os.path.join(dry['rundir'], 'c')
        bounds = sysinject.boundaries(dry['calls'], root, for_faults=(mode == 'sysfault'))
        shapes = [(c.name, c.ordinal, tuple(_cls(r) for r in c.rel(root))) for c in bounds]
        briefs = [c.brief(root) for c in bounds]
        counters['sys-variants'] += 1
        counters['sys-boundaries'] += len(bounds)
        for c in bounds:
            counters[f'syscall:{c.name}'] += 1
            if any('packs.idx' in r for r in c.rel(root)):
                counters['sys-boundaries-inside-sqlite'] += 1
        if mode == 'sysorder':
            is_delete = any(o['op'] == 'delete' for o in tmpl.ops)
            probs, stats = sysinject.ordering_problems(dry['calls'], root, is_delete=is_delete)
            counters.update({f'order:{k}': v for k, v in stats.items()})
            counters['ordering-traces-checked'] += 1
            for mech, msg in probs[:3]:
                vios.append(common.violation(f'{mech}:{name.split("@")[0]}', f'{name}: {msg}', {'variant': case['variant'], 'mode': mode}))
            common.rmtree(dry['rundir'])
            return common.case_result(sig=name + ':order', nontrivial=len(bounds) >= 2, counters=counters, violations=vios,
                                      sample={'variant': name, 'syscalls': briefs[:60]})
        common.rmtree(dry['rundir'])
        idxs = list(range(len(bounds)))
        if case.get('limit') and len(idxs) > case['limit']:
            import random as _r  # pylint: disable=import-outside-toplevel

            rnd = _r.Random(f'{name}-{case.get("seed", 0)}')
            # always keep the boundaries inside SQLite and around fsync; sample the rest
            keep = [i for i in idxs if bounds[i].name in ('fsync', 'fdatasync') or any('packs.idx' in r for r in bounds[i].rel(root))]
            rest = [i for i in idxs if i not in keep]
            keep = rnd.sample(keep, min(len(keep), case['limit'] // 2))
            idxs = sorted(set(keep + rnd.sample(rest, min(len(rest), case['limit'] - len(keep)))))
        is_repack = case['variant'].get('is_repack')
        for i in idxs:
            c = bounds[i]
            errs = ['KILL'] if mode == 'syskill' else (['ENOSPC'] if c.name in ('write', 'pwrite64', 'ftruncate') else ['EIO'])
            for err in errs:
                inject = f'{c.name}:signal=KILL:when={c.ordinal}' if mode == 'syskill' else f'{c.name}:error={err}:when={c.ordinal}'
                run = sysinject.run_traced(tmpl, inject=inject)
                try:
                    if run.get('error'):
                        counters['sys-cases-discarded'] += 1
                        continue
                    root2 = os.path.join(run['rundir'], 'c')
                    b2 = sysinject.boundaries(run['calls'], root2, for_faults=(mode == 'sysfault'))
                    if mode == 'syskill':
                        # the killed call never returns, so it is not in the log: the calls before it must be the dry-run prefix
                        pre = [(x.name, x.ordinal, tuple(_cls(r) for r in x.rel(root2))) for x in b2]
                        if not run['killed'] or pre != shapes[:len(pre)] or len(pre) not in (i, i + 1):
                            counters['sys-cases-discarded'] += 1
                            continue
                        counters['sys-kills'] += 1
                    else:
                        hit = [x for x in b2 if x.injected]
                        if len(hit) != 1 or (hit[0].name, hit[0].ordinal, tuple(_cls(r) for r in hit[0].rel(root2))) != shapes[i]:
                            counters['sys-cases-discarded'] += 1
                            continue
                        counters['sys-faults'] += 1
                        counters[f'sys-fault:{c.name}:{err}'] += 1
                        res = run['result']
                        if res is None:
                            vios.append(common.violation(f'sysfault:process-died:{name.split("@")[0]}',
                                                         f'{name}: {briefs[i]} failing with {err}: the process died (exit {run["exit"]})',
                                                         {'variant': case['variant'], 'mode': mode, 'inject': inject}))
                            continue
                        counters['sys-outcome:' + ('raised' if res['raised'] else 'completed')] += 1
                    tag = 'syskill' if mode == 'syskill' else 'sysfault'
                    probs, cnt = crashlab.disk_oracle(tmpl, run['rundir'], tag)
                    counters.update(cnt)
                    counters['sys-oracle-evaluations'] += 1
                    if mode == 'sysfault':
                        raised = run['result']['raised']
                        if not raised:
                            probs += crashlab.completed_oracle(tmpl, run['rundir'], 'sysfault')
                            counters['completed-outcomes-verified'] += 1
                        for m, g in map(tuple, run['result'].get('problems') or []):
                            probs.append((f'sysfault:{m}', g))
                        if not (is_repack and raised):
                            rst, rres = crashlab.rerun(tmpl, run['rundir'])
                            counters['sys-reruns'] += 1
                            if rst != 'ok' or rres is None:
                                probs.append(('sysfault:rerun-crashed', f'rerun child ended with {rst} {rres}'))
                            else:
                                if rres.get('raised'):
                                    probs.append(('sysfault:rerun-raised', f'after the fault cleared, re-running on a new handle raised {rres["raised"]}'))
                                for m, g in map(tuple, rres.get('problems') or []):
                                    probs.append((f'sysfault:rerun:{m}', g))
                    for mech, msg in probs[:3]:
                        vios.append(common.violation(f'{mech}:{name.split("@")[0]}',
                                                     f'{name}: {"kill at" if mode == "syskill" else err + " injected into"} syscall {i}/{len(bounds)} '
                                                     f'{briefs[i]}: {msg}', {'variant': case['variant'], 'mode': mode, 'inject': inject,
                                                                            'syscalls': briefs}))
                    if sample is None and any('packs.idx' in r for r in c.rel(root)):
                        sample = {'variant': name, 'injected': inject, 'at': briefs[i], 'syscalls': briefs[:50]}
                finally:
                    common.rmtree(run['rundir'])
            if len(vios) >= 9:
                break
        res = common.case_result(sig=name + ':' + mode, nontrivial=len(bounds) >= 2, counters=counters, violations=vios,
                                 sample=sample or {'variant': name, 'syscalls': briefs[:50]})
        res['distinct'] = counters['sys-kills'] + counters['sys-faults']
        res['evaluations'] = max(1, counters['sys-oracle-evaluations'])
        return res
    finally:
        common.rmtree(base)


def _cls(rel):
    top = rel.split(os.sep)[0]
    return top if top in ('loose', 'packs', 'sandbox', 'duplicates') else ('index' if top.startswith('packs.idx') else 'other')


run_sys_variant.case_timeout = 2400


def sys_cases(ctx, prop, mode, names=None, limit=None, default_fsync_only=False):
    vs = variants.variants('quick' if ctx.tier == 'quick' else 'thorough', default_fsync_only=default_fsync_only)
    if names:
        vs = [v for v in vs if v['name'].startswith(tuple(names))]
    seen, out = set(), []
    for v in vs:
        key = v['name'].split('@')[0]  # one pre-state per operation variant at syscall level (each case costs > 1 s here)
        if key in seen:
            continue
        seen.add(key)
        out.append({'prop': prop, 'variant': v, 'mode': mode, 'name': v['name'] + ':' + mode, 'limit': limit, 'seed': ctx.seed, 'timeout': 2400})
    return out
