"""E4: crash, power-loss and single-fault enumeration at every Python-level I/O boundary.

A *variant* is ``{'name', 'cfg', 'pre': [ops], 'op': op, ...}`` with operations in the vocabulary of
:mod:`vlib.model`.  For each variant a template container is built by ``pre``; a dry run of ``op`` under the
recording plan yields the ordered list of boundaries; then for **every** boundary k the template is copied,
a forked child runs ``op`` under ``crash@k`` (``os._exit``: no cleanup, user-space buffers lost) or
``fault@k`` and the parent applies the oracle to what is on disk.
"""
from __future__ import annotations

import json
import os
import shutil
import signal
import time
import traceback
from collections import Counter

from . import common, gen, iotrace, model, rawread

CRASH_EXIT = 77
SAME_HANDLE_FOLLOWUP_KINDS = {'fsync', 'fdatasync', 'fcntl', 'flush', 'sql:commit', 'sql:INSERT', 'sql:UPDATE', 'sql:DELETE'}
FOLLOWUP_CONTENT = b'follow-up object written through the same handle after the failed call ' * 3


# --------------------------------------------------------------------------------------- children
def run_child(fn, result_path, timeout=180):
    """Run ``fn()`` in a forked child; returns (status, result|None). status: 'ok' | 'exit:<n>' | 'signal:<n>' | 'timeout'."""
    pid = os.fork()
    if pid == 0:
        code = 0
        try:
            signal.alarm(0)
            signal.signal(signal.SIGALRM, signal.SIG_DFL)
            res = fn()
            iotrace.uninstall()
            with iotrace.real_open(result_path, 'w', encoding='utf8') as fh:
                json.dump(res, fh, default=repr)
        except BaseException:  # noqa: BLE001
            code = 70
            try:
                iotrace.uninstall()
                with iotrace.real_open(result_path + '.err', 'w', encoding='utf8') as fh:
                    fh.write(traceback.format_exc())
            except BaseException:  # noqa: BLE001
                pass
        finally:
            os._exit(code)
    deadline = time.time() + timeout
    while True:
        wpid, status = os.waitpid(pid, os.WNOHANG)
        if wpid:
            break
        if time.time() > deadline:
            os.kill(pid, signal.SIGKILL)
            os.waitpid(pid, 0)
            return 'timeout', None
        time.sleep(0.002)
    if os.WIFSIGNALED(status):
        return f'signal:{os.WTERMSIG(status)}', None
    code = os.WEXITSTATUS(status)
    res = None
    if code == 0 and os.path.exists(result_path):
        with open(result_path, encoding='utf8') as fh:
            res = json.load(fh)
    if code == 70:
        err = ''
        if os.path.exists(result_path + '.err'):
            err = open(result_path + '.err', encoding='utf8').read()
        return 'exit:70', {'traceback': err}
    return ('ok' if code == 0 else f'exit:{code}'), res


# --------------------------------------------------------------------------------------- template
class Template:
    def __init__(self, base: str, variant: dict):
        self.base = base
        self.variant = variant
        self.cfg = variant['cfg']
        self.dir = os.path.join(base, 'tmpl')
        self.root = os.path.join(self.dir, 'c')
        self.aux = os.path.join(self.dir, 'aux')
        os.makedirs(self.dir)
        world = model.World(self.root, self.cfg, aux=self.aux)
        self.damaged = set()  # keys whose loose copy was damaged on purpose in the pre-state (their state is judged by the re-add only)
        for op in variant.get('pre', []):
            world.apply(op)
            if op['op'] == 'damage_loose':
                self.damaged.add(world.key(op['c']))
        if world.problems:
            raise RuntimeError(f'pre-state ops reported problems: {world.problems[:2]}')
        world.close()
        self.pre_model = dict(world.model)
        self.ops = variant['op'] if isinstance(variant['op'], list) else [variant['op']]
        probe = model.World.attach(self.root, self.cfg, self.pre_model, aux=self.aux)
        self.new_contents = {}
        self.deleted = set()
        for op in self.ops:
            self.new_contents.update(probe.op_contents(op))
            if op['op'] == 'delete':
                self.deleted |= {probe.key(s) for s in op.get('cs', [])}
        self.known = dict(self.new_contents)
        self.known.update(self.pre_model)
        self.followup_key = probe.H(FOLLOWUP_CONTENT)
        self.known[self.followup_key] = FOLLOWUP_CONTENT  # may be added through the same handle after a failed call (fault lab)
        self.ncopies = 0

    def copy(self) -> str:
        self.ncopies += 1
        dst = os.path.join(self.base, f'run{self.ncopies}')
        shutil.copytree(self.dir, dst)
        return dst

    def post_model(self):
        post = dict(self.pre_model)
        for k in self.deleted:
            post.pop(k, None)
        for op in self.ops:
            if op['op'] == 'import':
                world = model.World.attach(self.root, self.cfg, {}, aux=self.aux)
                for s in op.get('req', []):
                    post[world.key(s)] = gen.content(s)
            elif op['op'] != 'delete':
                post.update(model.World.attach(self.root, self.cfg, {}, aux=self.aux).op_contents(op))
        return post


def _apply_ops(rundir, tmpl: Template, plan, post_sync=None, lenient=False):
    root = os.path.join(rundir, 'c')
    world = model.World.attach(root, tmpl.cfg, tmpl.pre_model, aux=os.path.join(rundir, 'aux'))
    world.lenient = lenient
    iotrace.install([root], plan=plan, audit=True, post_sync=post_sync)
    raised = None
    try:
        for op in tmpl.ops:
            world.apply(op)
    except BaseException as exc:  # noqa: BLE001
        raised = f'{type(exc).__name__}: {exc}'[:300]
        raised_type = type(exc).__name__
    finally:
        blind = list(iotrace.BLIND)
        iotrace.uninstall()
    return world, {'raised': raised, 'raised_type': raised_type if raised else None, 'blind': blind,
                   'problems': [list(p) for p in world.problems[:4]]}


def dry_run(tmpl: Template):
    rundir = tmpl.copy()

    def child():
        rec = iotrace.Recorder()
        _world, info = _apply_ops(rundir, tmpl, rec)
        info['events'] = [e.as_dict() | {'mutating': e.mutating, 'shape': e.shape(), 'brief': e.brief()} for e in rec.events]
        return info

    status, res = run_child(child, os.path.join(rundir, 'result.json'))
    common.rmtree(rundir)
    return status, res


def _snapshotter(syncdir):
    os.makedirs(syncdir, exist_ok=True)

    def post_sync(path, kind):
        try:
            st = os.stat(path)
        except OSError:
            return
        import stat as _stat  # pylint: disable=import-outside-toplevel

        if not _stat.S_ISREG(st.st_mode):
            return
        with iotrace.real_open(path, 'rb') as src, iotrace.real_open(os.path.join(syncdir, str(st.st_ino)), 'wb') as dst:
            shutil.copyfileobj(src, dst)

    return post_sync


def inode_map(root):
    out = {}
    for sub in iotrace.CLASSES:
        for dirpath, _dirs, files in os.walk(os.path.join(root, sub)):
            for name in files:
                path = os.path.join(dirpath, name)
                out[os.stat(path).st_ino] = os.path.relpath(path, root)
    return out


def crash_run(tmpl: Template, k: int, snapshots=False):
    """Returns (rundir, status, crash_event_brief, pre_inodes)."""
    rundir = tmpl.copy()
    root = os.path.join(rundir, 'c')
    pre_inodes = inode_map(root) if snapshots else {}
    marker = os.path.join(rundir, 'crash_event.json')

    def on_crash(ev):
        with iotrace.real_open(marker, 'w', encoding='utf8') as fh:
            json.dump({'shape': ev.shape(), 'brief': ev.brief()}, fh)

    def child():
        plan = iotrace.CrashAt(k, exit_code=CRASH_EXIT, on_crash=on_crash)
        post = _snapshotter(os.path.join(rundir, 'synced')) if snapshots else None
        _world, info = _apply_ops(rundir, tmpl, plan, post_sync=post)
        return info

    status, res = run_child(child, os.path.join(rundir, 'result.json'))
    crash_ev = None
    if os.path.exists(marker):
        crash_ev = json.load(open(marker, encoding='utf8'))
    return rundir, status, crash_ev, pre_inodes, res


def fault_run(tmpl: Template, k: int, errname: str, eligible_kinds):
    rundir = tmpl.copy()

    def child():
        plan = iotrace.FaultAt(k, errname, eligible=lambda ev: ev.kind in eligible_kinds)
        world, info = _apply_ops(rundir, tmpl, plan)
        info['fired'] = plan.fired.brief() if plan.fired else None
        info['fired_shape'] = plan.fired.shape() if plan.fired else None
        info['followup'] = None
        if info['raised'] and plan.fired is not None and plan.fired.kind in SAME_HANDLE_FOLLOWUP_KINDS:
            # The application catches the error and goes on with the SAME handle: whatever the failed call left pending in the
            # handle's index session may get committed by the next call, so it must never point at bytes that are not in the pack.
            # (Only after faults that leave the written bytes in place: sync calls, flush, SQL statements/commit.)
            try:
                if k % 2 == 0:
                    world.handle().add_objects_to_pack([FOLLOWUP_CONTENT])
                else:
                    world.handle().clean_storage()  # must never act on index rows the failed call left uncommitted
                info['followup'] = 'committed'
            except BaseException as exc:  # noqa: BLE001 - the handle may legitimately be unusable after the error
                info['followup'] = f'raised {type(exc).__name__}'
        return info

    status, res = run_child(child, os.path.join(rundir, 'result.json'))
    return rundir, status, res


def rerun(tmpl: Template, rundir: str):
    """After a fault: remove stale locks, re-run the operation through a new handle, check the normal result."""
    root = os.path.join(rundir, 'c')
    for name in os.listdir(os.path.join(root, 'packs')):
        if name.endswith('.lock'):
            os.remove(os.path.join(root, 'packs', name))

    def child():
        world, info = _apply_ops(rundir, tmpl, None, lenient=True)
        world.model = tmpl.post_model()
        if tmpl.followup_key in rawread.Snapshot(root).visible_keys():
            world.model[tmpl.followup_key] = FOLLOWUP_CONTENT  # the follow-up object of the same-handle continuation
        if not info['raised']:
            from disk_objectstore import Container  # pylint: disable=import-outside-toplevel

            with Container(root) as fresh:
                world.check_views(cont=fresh, tag='rerun')
                rep = fresh.validate()
                if not rep.is_valid():
                    world.problem('rerun:validate', f'validate() after rerun reports {rep}')
            snap = rawread.Snapshot(root)
            for prob in snap.consistency_problems():
                world.problem('rerun:raw', prob)
        world.close()
        info['problems'] = [list(p) for p in world.problems[:4]]
        return info

    return run_child(child, os.path.join(rundir, 'rerun.json'))


# --------------------------------------------------------------------------------------- power loss
def powerloss_image(tmpl: Template, rundir: str, pre_inodes: dict):
    """Rewrite every regular data file of the killed run to what survived its last fsync."""
    root = os.path.join(rundir, 'c')
    syncdir = os.path.join(rundir, 'synced')
    stats = Counter()
    seen = set()
    for sub in iotrace.CLASSES:
        for dirpath, _dirs, files in os.walk(os.path.join(root, sub)):
            for name in files:
                path = os.path.join(dirpath, name)
                ino = os.stat(path).st_ino
                if ino in seen:
                    continue  # hard link to a file already rewritten (same inode, same content)
                seen.add(ino)
                snap = os.path.join(syncdir, str(ino))
                if os.path.exists(snap):
                    with open(snap, 'rb') as fh:
                        content = fh.read()
                    stats['from-last-fsync'] += 1
                elif ino in pre_inodes:
                    with open(os.path.join(tmpl.root, pre_inodes[ino]), 'rb') as fh:
                        content = fh.read()
                    stats['pre-existing'] += 1
                else:
                    content = b''
                    stats['never-synced'] += 1
                with open(path, 'rb') as fh:
                    cur = fh.read()
                if cur != content:
                    stats['files-changed-by-power-loss'] += 1
                    with open(path, 'r+b') as fh:  # keep the inode (hard links)
                        fh.seek(0)
                        fh.write(content)
                        fh.truncate(len(content))
    return stats


# --------------------------------------------------------------------------------------- oracle
def completed_oracle(tmpl: Template, rundir: str, tag: str):
    """The operation returned normally although one call failed: it must have completed CORRECTLY, i.e. a fresh handle sees
    exactly the state a fault-free run produces (checked before any re-run)."""
    from disk_objectstore import Container  # pylint: disable=import-outside-toplevel

    root = os.path.join(rundir, 'c')
    post = tmpl.post_model()
    probs = []
    with Container(root) as fresh:
        try:
            got = fresh.get_objects_content(list(post), skip_if_missing=False)
        except Exception as exc:  # noqa: BLE001
            return [(f'{tag}:completed-but-unreadable', f'the operation returned normally but reading its result raises {exc!r}')]
        for k, d in post.items():
            if got.get(k) != d:
                probs.append((f'{tag}:completed-but-wrong', f'the operation returned normally (no exception) but object {k[:12]} is '
                                                            f'{"missing" if got.get(k) is None else "wrong"} afterwards'))
        for k in tmpl.deleted:
            if fresh.has_object(k):
                probs.append((f'{tag}:completed-but-wrong', f'the delete returned normally but {k[:12]} still exists'))
    return probs[:3]


def disk_oracle(tmpl: Template, rundir: str, tag: str, allow_minus1_failure=True):
    """C05/C06/C17 on-disk oracle. Returns (problems, counters)."""
    root = os.path.join(rundir, 'c')
    probs, cnt = [], Counter()
    try:
        snap = rawread.Snapshot(root, recover=True)
    except Exception as exc:  # noqa: BLE001
        return [(f'{tag}:index-unreadable', f'raw reader cannot open the index after the event: {exc!r}')], cnt
    minus1 = any(r.pack_id == -1 for r in snap.rows)
    if minus1:
        cnt['states-with-index-pointing-at-temporary-pack'] += 1
    # (a) every pre-existing, non-deleted object is complete where the index / loose folder says
    for key, data in tmpl.pre_model.items():
        if key in tmpl.deleted or key in tmpl.damaged:
            continue
        got, prob = snap.read_key(key)
        cnt['pre-existing-objects-checked'] += 1
        if got != data:
            probs.append((f'{tag}:pre-existing-lost', f'pre-existing object {key[:12]} not complete on disk: {prob or "other bytes"}'))
    # (b) nothing partial is visible under a key
    for row in snap.rows:
        data, prob = rawread.object_from_row(root, row)
        cnt['visible-rows-checked'] += 1
        if prob or rawread.hexdigest(snap.hash_type, data) != row.hashkey or len(data) != row.size:
            probs.append((f'{tag}:row-torn', f'index row {row.hashkey[:12]} (pack {row.pack_id} @{row.offset}+{row.length}) '
                                             f'does not designate its object: {prob or "digest/size mismatch"}'))
    for key in snap.loose:
        if key in tmpl.damaged:
            continue
        data = snap.read_loose(key)
        cnt['visible-loose-checked'] += 1
        if data is None or rawread.hexdigest(snap.hash_type, data) != key:
            probs.append((f'{tag}:loose-torn', f'loose file {key[:12]} holds {None if data is None else len(data)} bytes '
                                               f'that do not hash to its name'))
    # (c) a fresh handle never returns wrong bytes
    from disk_objectstore import Container  # pylint: disable=import-outside-toplevel
    from disk_objectstore.exceptions import NotExistent  # pylint: disable=import-outside-toplevel

    visible = snap.visible_keys()
    with Container(root) as fresh:
        for key in (set(tmpl.known) | visible) - tmpl.damaged:
            cnt['fresh-handle-reads'] += 1
            try:
                got = fresh.get_object_content(key)
            except NotExistent:
                if key in tmpl.pre_model and key not in tmpl.deleted:
                    probs.append((f'{tag}:fresh-missing', f'fresh handle reports pre-existing {key[:12]} missing'))
                elif key in visible and key not in tmpl.deleted:
                    probs.append((f'{tag}:fresh-missing', f'fresh handle reports visible key {key[:12]} missing'))
                continue
            except Exception as exc:  # noqa: BLE001
                if minus1 and allow_minus1_failure:
                    cnt['fresh-handle-loud-failures-during-interrupted-repack'] += 1
                    continue
                probs.append((f'{tag}:fresh-raised', f'fresh handle raised {exc!r} for {key[:12]}'))
                continue
            want = tmpl.known.get(key)
            if want is None:
                if rawread.hexdigest(snap.hash_type, got) != key:
                    probs.append((f'{tag}:fresh-wrong-bytes', f'fresh handle returned bytes not hashing to {key[:12]}'))
            elif got != want:
                probs.append((f'{tag}:fresh-wrong-bytes', f'fresh handle returned {len(got)} wrong bytes for {key[:12]} '
                                                          f'(expected {len(want)})'))
    return probs, cnt
