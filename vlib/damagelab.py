"""C12 (no false negatives): enumerate damages of a generated container; validate() must never be clean when reading
every object shows the damage."""
from __future__ import annotations

import os
import random
import signal
import sqlite3
from collections import Counter

from . import common, gen, rawread


class Timeout(Exception):
    pass


def with_timeout(fn, secs):
    """Run fn() with a wall-clock limit, preserving an outer SIGALRM watchdog."""
    def handler(_s, _f):
        raise Timeout()

    old_handler = signal.signal(signal.SIGALRM, handler)
    old_left = signal.alarm(secs)
    try:
        return fn()
    finally:
        signal.alarm(0)
        signal.signal(signal.SIGALRM, old_handler)
        if old_left:
            signal.alarm(max(1, old_left))


def build(base, rnd):
    from disk_objectstore import Container  # pylint: disable=import-outside-toplevel

    root = os.path.join(base, 'c')
    cfg = {'hash_type': rnd.choice(['sha1', 'sha256']), 'loose_prefix_len': rnd.choice([0, 2]),
           'compression_algorithm': f'zlib+{rnd.randrange(1, 10)}', 'pack_size_target': rnd.choice([400, 4 * 1024 ** 3])}
    cont = Container(root)
    cont.init_container(clear=True, **cfg)
    model = {}
    sizes = [0, 1, 5, 40, 120, 700]

    def mk(n):
        return [gen.content([rnd.choice(['text', 'rnd', 'zero']), rnd.choice(sizes), rnd.randrange(1 << 20)]) for _ in range(n)]

    ds = mk(rnd.randint(2, 4)) + [gen.content(['text', 3000, rnd.randrange(999)])]
    for k, d in zip(cont.add_objects_to_pack(ds, compress=False), ds):
        model[k] = d
    ds = mk(rnd.randint(2, 4)) + [gen.content(['text', 70000, rnd.randrange(999)])]
    for k, d in zip(cont.add_objects_to_pack(ds, compress=True), ds):
        model[k] = d
    # objects in BOTH forms: loose first, packed (compressed) without cleaning - a valid state in which the loose copy is live data
    # (a backwards/from-the-end seek in the compressed packed object is served from it)
    for d in mk(rnd.randint(1, 3)) + [gen.content(['text', 900, rnd.randrange(999)])]:
        model[cont.add_object(d)] = d
    cont.pack_all_loose(compress=True)
    for d in mk(rnd.randint(2, 4)):
        model[cont.add_object(d)] = d
    cont.close()
    return root, cfg, model


def ground_truth(root, model):
    """Does reading every object through a fresh handle show damage? Returns a description or None."""
    from disk_objectstore import Container  # pylint: disable=import-outside-toplevel

    cont = Container(root)
    try:
        has_loose = set(rawread.loose_keys(root))
        for k, d in model.items():
            try:
                with cont.get_object_stream_and_meta(k) as (stream, meta):
                    got = stream.read()
                    size = meta.size
                    if k in has_loose and meta.pack_compressed:
                        # a second live copy: seeking reads of a compressed packed object are served from its loose copy.
                        # Read that copy in full through the API (seek to the end switches to it).
                        stream.seek(0, 2)
                        stream.seek(0)
                        again = stream.read()
                        if again != d:
                            return f'{k[:10]} reads back as {len(again)} other bytes through its loose copy (after a seek)'
            except Timeout:
                raise
            except BaseException as exc:  # noqa: BLE001 - AssertionError etc. included
                return f'reading {k[:10]} raises {type(exc).__name__}'
            if got != d:
                return f'{k[:10]} reads back as {len(got)} other bytes'
            if size != len(got):
                return f'{k[:10]} recorded size {size} != {len(got)} bytes read'
        return None
    finally:
        cont.close()


def verdict(root):
    from disk_objectstore import Container  # pylint: disable=import-outside-toplevel

    cont = Container(root)
    try:
        try:
            rep = cont.validate()
        except Timeout:
            raise
        except BaseException as exc:  # noqa: BLE001
            return f'raised {type(exc).__name__}'
        return 'clean' if rep.is_valid() else 'issues'
    finally:
        cont.close()


def damages(root, model, rnd, density):  # noqa: C901
    """Yield (description, apply(), revert())."""
    snap = rawread.Snapshot(root)

    def file_patch(path, pos, newbyte=None, truncate_to=None):
        state = {}

        def apply():
            with open(path, 'rb') as fh:
                state['orig'] = fh.read()
            data = bytearray(state['orig'])
            if truncate_to is not None:
                data = data[:truncate_to]
            else:
                data[pos] = newbyte if newbyte is not None else data[pos] ^ state['mask']
            with open(path, 'wb') as fh:
                fh.write(bytes(data))

        def revert():
            with open(path, 'wb') as fh:
                fh.write(state['orig'])

        return state, apply, revert

    # bit flips in referenced bytes of packs and in loose files
    targets = []
    for row in snap.rows:
        path = os.path.join(root, 'packs', str(row.pack_id))
        n = row.length
        poss = range(n) if n <= 64 else sorted({0, 1, n // 2, n - 2, n - 1} | {rnd.randrange(n) for _ in range(density)})
        for p in poss:
            targets.append((f'pack {row.pack_id} row {row.hashkey[:8]}{"(z)" if row.compressed else ""}', path, row.offset + p))
    for key, path in snap.loose.items():
        n = os.path.getsize(path)
        poss = range(n) if n <= 64 else sorted({0, n // 2, n - 1} | {rnd.randrange(n) for _ in range(density)})
        for p in poss:
            targets.append((f'loose {key[:8]}', path, p))
    for what, path, pos in targets:
        for bit in ([rnd.randrange(8)] if density < 8 else range(8)):
            state, apply, revert = file_patch(path, pos)
            state['mask'] = 1 << bit
            yield f'bit {bit} of byte {pos} flipped in {what}', 'bitflip', apply, revert
    # truncations
    for key, path in snap.loose.items():
        n = os.path.getsize(path)
        for t in (range(n) if n <= 40 else sorted({0, 1, n // 2, n - 1})):
            _s, apply, revert = file_patch(path, 0, truncate_to=t)
            yield f'loose {key[:8]} truncated from {n} to {t} bytes', 'truncate-loose', apply, revert
    by_pack = {}
    for row in snap.rows:
        by_pack.setdefault(row.pack_id, []).append(row)
    for pid, rows in by_pack.items():
        path = os.path.join(root, 'packs', str(pid))
        cuts = set()
        for row in rows:
            if row.length:
                cuts |= {row.offset, row.offset + row.length // 2, row.offset + row.length - 1}
        for t in sorted(cuts):
            _s, apply, revert = file_patch(path, 0, truncate_to=t)
            yield f'packs/{pid} truncated to {t} bytes (inside referenced data)', 'truncate-pack', apply, revert
        def mk_rm(path=path):
            state = {}

            def apply():
                state['orig'] = open(path, 'rb').read()
                os.remove(path)

            def revert():
                with open(path, 'wb') as fh:
                    fh.write(state['orig'])
            return apply, revert
        apply, revert = mk_rm()
        yield f'packs/{pid} removed', 'remove-pack', apply, revert
    # index field perturbations
    dbpath = os.path.join(root, 'packs.idx')

    def sql_patch(rowid, field, newval, oldval):
        def apply():
            con = sqlite3.connect(dbpath)
            con.execute(f'UPDATE db_object SET "{field}" = ? WHERE id = ?', (newval, rowid))
            con.commit()
            con.close()

        def revert():
            con = sqlite3.connect(dbpath)
            con.execute(f'UPDATE db_object SET "{field}" = ? WHERE id = ?', (oldval, rowid))
            con.commit()
            con.close()
        return apply, revert

    for row in snap.rows:
        size = snap.packs[str(row.pack_id)]
        vals = {
            'offset': {row.offset + 1, row.offset - 1, row.offset + row.length, row.offset - row.length, 0, size + 10, -1, size},
            'length': {row.length + 1, row.length - 1, 0, row.length * 2, 10 ** 9},
            'size': {row.size + 1, row.size - 1, 0},
            'compressed': {0 if row.compressed else 1},
            'pack_id': {row.pack_id + 1, 99},
        }
        for field, news in vals.items():
            old = getattr(row, field)
            for new in sorted(news):
                if new == old or (field == 'length' and new < 0) or (field == 'size' and new < 0):
                    continue
                apply, revert = sql_patch(row.id, field, new, old)
                yield f'index row {row.hashkey[:8]}{"(z)" if row.compressed else ""}: {field} {old} -> {new}', f'index-{field}', apply, revert


def run_container(case):  # noqa: C901
    rnd = random.Random(f'c12-{case["seed"]}')
    base = common.mkscratch('dmg-')
    counters, vios = Counter(), []
    sample = None
    seen = 0
    try:
        root, cfg, model = build(base, rnd)
        if ground_truth(root, model) is not None or verdict(root) != 'clean':
            return common.case_result('dmg', False, inconclusive='generated container is not clean before any damage')
        only = case.get('only')
        for desc, kind, apply, revert in damages(root, model, rnd, case.get('density', 3)):
            if only is not None and desc != only:
                continue
            apply()
            try:
                try:
                    truth = with_timeout(lambda: ground_truth(root, model), 20)
                except Timeout:
                    truth = 'reading hangs (> 20 s)'
                    counters['ground-truth-hangs'] += 1
                counters['damages'] += 1
                counters[f'damage:{kind}'] += 1
                seen += 1
                if truth is None:
                    counters['damages-not-observable-by-reading'] += 1
                    continue
                counters['damages-observable'] += 1
                try:
                    v = with_timeout(lambda: verdict(root), 20)
                except Timeout:
                    v = 'hang'
                    counters['validate-hangs'] += 1
                counters[f'validate:{v.split(" ")[0]}'] += 1
                if v == 'clean':
                    vios.append(common.violation(f'validate:false-negative:{kind}',
                                                 f'{desc}: {truth}, but validate() returned a clean report '
                                                 f'[{cfg["hash_type"]}, zlib level {cfg["compression_algorithm"]}]',
                                                 {'damage': {'seed': case['seed'], 'density': case.get('density', 3), 'only': desc}}))
                elif v == 'hang':
                    vios.append(common.violation(f'validate:hang:{kind}', f'{desc}: {truth}; validate() did not return within 20 s',
                                                 {'damage': {'seed': case['seed'], 'density': case.get('density', 3), 'only': desc}}))
                if sample is None and kind.startswith('index'):
                    sample = {'damage': desc, 'ground_truth': truth, 'validate': v}
            finally:
                revert()
            if len(vios) >= 6:
                break
        if ground_truth(root, model) is not None:
            return common.case_result('dmg', False, inconclusive='harness failed to revert a damage')
        res = common.case_result(sig=f'dmg{case["seed"]}', nontrivial=True, counters=counters, violations=vios, sample=sample)
        res['distinct'] = seen
        res['evaluations'] = max(1, seen)
        return res
    finally:
        common.rmtree(base)
