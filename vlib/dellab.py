"""C11: deletion removes exactly the requested objects; a full repack reclaims their space."""
from __future__ import annotations

import os
import random
import zlib
from collections import Counter

from . import common, gen, iotrace, model, rawread


def gen_case(rnd):
    n = rnd.randint(4, 10)
    specs = [[rnd.choice(['rnd', 'rnd', 'text']), rnd.choice([40, 300, 1200, 5000]), rnd.randrange(1 << 24)] for _ in range(n)]  # unique contents (random, or seeded text that deflates well)
    layout = [rnd.choice(['loose', 'packed', 'packedz', 'both', 'bothz']) for _ in specs]
    subset_kind = rnd.choice(['some', 'some', 'all', 'none', 'one', 'mixed-absent', 'repeated', 'only-absent'])
    return {'cfg': {'hash_type': rnd.choice(['sha1', 'sha256']), 'loose_prefix_len': rnd.choice([0, 2, 3]),
                    'compression_algorithm': f'zlib+{rnd.randrange(1, 10)}', 'pack_size_target': rnd.choice([700, 3000, 4 * 1024 ** 3])},
            'specs': specs, 'layout': layout, 'subset': subset_kind, 'dups': rnd.random() < 0.35,
            'repack': rnd.choice(['keep', 'keep', 'yes', 'no', 'auto', None]), 'pick_seed': rnd.randrange(1 << 20),
            'in_sql_max': rnd.choice([1, 2, 3, 950, 950]),
            'second_round': rnd.random() < 0.4,
            'delete_twice': rnd.random() < 0.2}


def run_one(case, base, counters):  # noqa: C901
    from disk_objectstore import CompressMode, Container  # pylint: disable=import-outside-toplevel

    rnd = random.Random(case['pick_seed'])
    root = os.path.join(base, 'c')
    world = model.World(root, case['cfg'], aux=os.path.join(base, 'aux'))
    cont = world.handle()
    probs = []

    def bad(mech, msg):
        probs.append((mech, msg))

    try:
        keys = []
        datas = {}
        for spec in case['specs']:
            d = gen.content(spec)
            keys.append(world.H(d))
            datas[keys[-1]] = d
            world.model[keys[-1]] = d
        # objects that must exist in both forms first: loose, then packed without cleaning
        for k, form in zip(keys, case['layout']):
            if form in ('both', 'bothz'):
                cont.add_object(datas[k])
        if any(f in ('both', 'bothz') for f in case['layout']):
            cont.pack_all_loose(compress=any(f == 'bothz' for f in case['layout']))
        for k, form in zip(keys, case['layout']):
            if form in ('packed', 'packedz'):
                cont.add_objects_to_pack([datas[k]], compress=form.endswith('z'))
            elif form == 'loose':
                cont.add_object(datas[k])
        ndups = 0
        if case['dups']:
            # stray duplicates through the library's own branch: damage a loose copy, re-add, make os.replace fail once
            loose = rawread.loose_keys(root, case['cfg']['loose_prefix_len'])
            for k in [k for k in keys if k in loose][:2]:
                with open(loose[k], 'r+b') as fh:
                    fh.write(b'\xff')
                plan = iotrace.FaultAt(0, 'EACCES', eligible=lambda ev: ev.kind == 'replace')
                iotrace.install([root], plan=plan, audit=False)
                try:
                    cont.add_object(world.model[k])
                finally:
                    iotrace.uninstall()
                # the loose copy is still the damaged one; repair it so that the object itself is intact
                with open(loose[k], 'wb') as fh:
                    fh.write(world.model[k])
                if plan.fired:
                    ndups += 1
            counters['stray-duplicates-created'] += len(os.listdir(os.path.join(root, 'duplicates')))
        snap0 = rawread.Snapshot(root)
        forms = {k: ('both' if k in snap0.loose and any(r.hashkey == k for r in snap0.rows) else 'loose' if k in snap0.loose else 'packed')
                 for k in keys}
        for f in forms.values():
            counters[f'form:{f}'] += 1
        absent = [world.H(b'absent %d' % i) for i in range(2)]
        sk = case['subset']
        if sk == 'some':
            S = rnd.sample(keys, rnd.randint(1, max(1, len(keys) // 2)))  # noqa: N806
        elif sk == 'all':
            S = list(keys)  # noqa: N806
        elif sk == 'none':
            S = []  # noqa: N806
        elif sk == 'one':
            S = [rnd.choice(keys)]  # noqa: N806
        elif sk == 'mixed-absent':
            S = rnd.sample(keys, rnd.randint(1, len(keys) - 1)) + absent  # noqa: N806
        elif sk == 'repeated':
            S = rnd.sample(keys, 2) * 2  # noqa: N806
        else:
            S = list(absent)  # noqa: N806
        rnd.shuffle(S)
        counters[f'subset:{sk}'] += 1
        want = {k for k in S if k in world.model}
        deleted_content = {k: world.model[k] for k in want}
        stored_before = {}
        for r in snap0.rows:
            if r.hashkey in want:
                stored_before[r.hashkey] = rawread.read_range(root, r.pack_id, r.offset, r.length)
        packs_before = {n: open(os.path.join(root, 'packs', n), 'rb').read() for n in snap0.packs if n.isdigit()}
        hole_free = {}
        per_pack = {}
        for r in snap0.rows:
            per_pack.setdefault(str(r.pack_id), []).append(r)
        if case.get('in_sql_max', 950) != 950:
            cont._IN_SQL_MAX_LENGTH = case['in_sql_max']  # pylint: disable=protected-access  (several IN-batches even for a few keys)
            counters['deletes-spanning-several-sql-batches'] += 1 if len(S) > case['in_sql_max'] else 0
        ret = cont.delete_objects(S)
        counters['deletes'] += 1
        if sorted(ret) != sorted(want):
            bad('delete:return', f'delete_objects returned {sorted(x[:8] for x in ret)} for requested {sorted(x[:8] for x in S)}; '
                                 f'existing requested keys: {sorted(x[:8] for x in want)}')
        for k in want:
            world.model.pop(k)
        if case['delete_twice']:
            again = cont.delete_objects(S)
            if again:
                bad('delete:return', f'second delete_objects of the same keys returned {again}')
        for hname, h in (('same', cont), ('fresh', Container(root))):
            world.check_views(cont=h, tag=f'after-delete:{hname}')
            if h is not cont:
                h.close()
        probs += [(m.replace('view:', 'delete:view:'), g) for m, g in world.problems]
        world.problems = []
        snap1 = rawread.Snapshot(root)
        for k in want:
            if k in snap1.loose or any(r.hashkey == k for r in snap1.rows):
                bad('delete:still-on-disk', f'deleted key {k[:10]} still has a loose file or an index row')
            if any(n.startswith(k + '.') for n in os.listdir(os.path.join(root, 'duplicates'))):
                bad('delete:stray-duplicate-left', f'deleted key {k[:10]} still has a file in duplicates/')
        others0 = {r.hashkey: r for r in snap0.rows if r.hashkey not in want}
        others1 = {r.hashkey: r for r in snap1.rows}
        if others0 != others1:
            bad('delete:other-rows-changed', 'index rows of objects that were not requested changed')
        if set(snap1.loose) != set(snap0.loose) - want:
            bad('delete:other-loose-changed', 'loose files of objects that were not requested changed')
        rounds = [(case['repack'], want, deleted_content, stored_before, packs_before)] if case['repack'] else []
        for rnd_i, (mode_r, want_r, deleted_r, stored_r, packs_before_r) in enumerate(rounds):
            if probs:
                break
            if rnd_i == 0 and case.get('second_round'):
                pass
            probs += _repack_round(world, cont, root, case, mode_r, deleted_r, stored_r, packs_before_r, counters)
            if rnd_i == 0 and case.get('second_round') and not probs and len(world.model) >= 2:
                # a second round: delete some more, repack again (pack ids may have gaps now)
                snap_b = rawread.Snapshot(root)
                more = rnd.sample(sorted(world.model), max(1, len(world.model) // 2))
                deleted2 = {k: world.model[k] for k in more}
                stored2 = {r.hashkey: rawread.read_range(root, r.pack_id, r.offset, r.length) for r in snap_b.rows if r.hashkey in deleted2}
                packs2 = {n: open(os.path.join(root, 'packs', n), 'rb').read() for n in snap_b.packs if n.isdigit()}
                ret2 = cont.delete_objects(more)
                if sorted(ret2) != sorted(more):
                    bad('delete:return', f'second delete_objects returned {len(ret2)} keys for {len(more)} existing ones')
                for k in more:
                    world.model.pop(k)
                counters['second-rounds'] += 1
                rounds.append((rnd.choice(['keep', 'keep', 'yes', 'no', 'auto']), set(more), deleted2, stored2, packs2))
        return probs
    finally:
        world.close()


def _repack_round(world, cont, root, case, mode, deleted_content, stored_before, packs_before, counters):  # noqa: C901
    from disk_objectstore import CompressMode  # pylint: disable=import-outside-toplevel

    probs = []
    hole_free = {}

    def bad(mech, msg):
        probs.append((mech, msg))

    snap1 = rawread.Snapshot(root)
    case = dict(case, repack=mode)
    if True:
        if True:
            live_per_pack = {}
            for r in snap1.rows:
                live_per_pack.setdefault(str(r.pack_id), []).append(r)
            for name, rows in live_per_pack.items():  # hole-free packs: live rows tile the file exactly
                rows.sort(key=lambda r: r.offset)
                pos = 0
                ok = True
                for r in rows:
                    ok = ok and r.offset == pos
                    pos += r.length
                hole_free[name] = ok and pos == snap1.packs.get(name)
            cont.repack(compress_mode=CompressMode(case['repack']))
            counters[f'repack:{case["repack"]}'] += 1
            snap2 = rawread.Snapshot(root)
            world.check_views(cont=cont, tag='after-repack')
            probs += [(m.replace('view:', 'delete:view:'), g) for m, g in world.problems]
            per = {}
            for r in snap2.rows:
                per.setdefault(str(r.pack_id), []).append(r)
            for name in [n for n in snap2.packs if n.lstrip('-').isdigit()]:
                rows = sorted(per.get(name, []), key=lambda r: (r.offset, r.length))
                if not rows:
                    bad('repack:empty-pack-left', f'packs/{name} has no live object after repack but still exists ({snap2.packs[name]} bytes)')
                    continue
                pos = 0
                for r in rows:
                    if r.offset != pos:
                        bad('repack:not-a-tiling', f'packs/{name}: object at {r.offset} but previous ends at {pos}')
                        break
                    pos += r.length
                if pos != snap2.packs[name]:
                    bad('repack:unreferenced-bytes', f'packs/{name} has {snap2.packs[name]} bytes but its live objects occupy {pos}')
            blob = b''.join(open(os.path.join(root, 'packs', n), 'rb').read() for n in snap2.packs if n.lstrip('-').isdigit())
            for k, d in deleted_content.items():
                if len(d) >= 40:
                    counters['deleted-bytes-searches'] += 1
                    if d in blob or (k in stored_before and stored_before[k] and len(stored_before[k]) >= 30 and stored_before[k] in blob):
                        bad('repack:deleted-bytes-still-in-pack', f'bytes of deleted object {k[:10]} still occur in a pack file after repack')
            if case['repack'] == 'keep':
                for name, ok in hole_free.items():
                    if ok and name in snap2.packs:
                        counters['hole-free-packs-under-keep'] += 1
                        now = open(os.path.join(root, 'packs', name), 'rb').read()
                        if now != packs_before[name]:
                            bad('repack:keep-changed-hole-free-pack', f'packs/{name} had no holes but changed under repack(KEEP)')
            for problem in snap2.consistency_problems():
                bad('repack:raw', problem)
    return probs


def run_batch(case):
    rnd = random.Random(f'c11-{case["seed"]}')
    base = common.mkscratch('del-')
    counters, vios, seen = Counter(), [], set()
    sample = None
    try:
        for i in range(case['n']):
            one = case.get('explicit') or gen_case(rnd)
            sub = os.path.join(base, f'x{i}')
            os.makedirs(sub)
            try:
                probs = run_one(one, sub, counters)
            except Exception as exc:  # noqa: BLE001
                import traceback  # pylint: disable=import-outside-toplevel

                probs = [(f'delete:raised:{type(exc).__name__}', f'{exc!r} :: {traceback.format_exc()[-500:]}')]
            finally:
                iotrace.uninstall()
                common.rmtree(sub)
            seen.add(common.digest(one))
            for mech, msg in probs[:2]:
                vios.append(common.violation(mech, msg, {'explicit': one}))
            if sample is None:
                sample = {k: v for k, v in one.items() if k != 'specs'}
            if len(vios) >= 6 or case.get('explicit'):
                break
        res = common.case_result(sig=f'del{case["seed"]}', nontrivial=True, counters=counters, violations=vios, sample=sample)
        res['distinct'] = len(seen)
        res['evaluations'] = max(1, counters['deletes'])
        return res
    finally:
        common.rmtree(base)
