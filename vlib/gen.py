"""Seeded generators: contents, container configurations and API histories.

Everything is described by small JSON-able values so that a case can be written into a
replay file and re-executed exactly.  A content is ``[kind, size, seed]``; an operation is a
dict ``{'op': name, ...}`` interpreted by :mod:`vlib.model`.
"""
from __future__ import annotations

import random

SMALL_SIZES = [0, 1, 2, 10, 100, 768, 1500, 4096, 8191, 8192, 8193]
CHUNK_SIZES = [65535, 65536, 65537, 131071, 131072, 131073, 524287, 524288, 524289]
BIG_SIZES = [1048576, 1048577, 1300000]
KINDS = ['rnd', 'zero', 'text', 'mix', 'mixr']
COMPRESS_MODES = ['no', 'yes', 'keep', 'auto']
PACK_TARGETS = [1, 50, 500, 70000, 4 * 1024 * 1024 * 1024]

_CACHE: dict[tuple, bytes] = {}


def _text(n: int, seed: int) -> bytes:
    rnd = random.Random(seed)
    words = [b'alpha', b'beta', b'gamma', b'delta', b'omega', b'lorem', b'ipsum', b'%d' % seed]
    out = bytearray()
    while len(out) < n:
        out += words[rnd.randrange(len(words))] + b' '
    return bytes(out[:n])


def content(spec) -> bytes:
    """Deterministic bytes for ``[kind, size, seed]``."""
    kind, n, seed = spec
    key = (kind, n, seed)
    hit = _CACHE.get(key)
    if hit is not None:
        return hit
    if kind == 'rnd':
        data = random.Random(seed).randbytes(n)
    elif kind == 'zero':
        data = b'\x00' * n
    elif kind == 'text':
        data = _text(n, seed)
    elif kind == 'mix':  # compressible head, incompressible tail
        data = _text(n // 2, seed) + random.Random(seed).randbytes(n - n // 2)
    elif kind == 'mixr':  # incompressible head, compressible tail
        data = random.Random(seed).randbytes(n // 2) + _text(n - n // 2, seed)
    else:
        raise ValueError(kind)
    if len(_CACHE) > 400:
        _CACHE.clear()
    _CACHE[key] = data
    return data


def random_size(rnd: random.Random, big_p: float = 0.04, chunk_p: float = 0.12) -> int:
    x = rnd.random()
    if x < big_p:
        return rnd.choice(BIG_SIZES)
    if x < big_p + chunk_p:
        return rnd.choice(CHUNK_SIZES)
    if x < 0.55:
        return rnd.choice(SMALL_SIZES)
    return rnd.randrange(0, 3000)


def random_spec(rnd: random.Random, big_p: float = 0.04, chunk_p: float = 0.12):
    return [rnd.choice(KINDS), random_size(rnd, big_p, chunk_p), rnd.randrange(1 << 30)]


def random_config(rnd: random.Random) -> dict:
    return {
        'hash_type': rnd.choice(['sha256', 'sha1']),
        'loose_prefix_len': rnd.choice([0, 1, 2, 2, 3]),
        'compression_algorithm': f'zlib+{rnd.randrange(1, 10)}',
        'pack_size_target': rnd.choice(PACK_TARGETS),
    }


class HistoryGen:
    """Generates histories over the public API with recurrence of contents.

    ``allow`` restricts the operation kinds (e.g. no repack for C13); ``pool_size`` controls how
    strongly contents recur; ``no_holes_p`` biases direct-to-pack calls towards no_holes.
    """

    ALL_OPS = [
        'add_object',
        'add_streamed',
        'add_objects_to_pack',
        'add_streamed_objects_to_pack',
        'add_streamed_object_to_pack',
        'pack_all_loose',
        'clean_storage',
        'repack',
        'repack_pack',
        'delete',
        'loosen',
        'seek_read',
        'import',
        'reopen',
        'init_again',
        'damage_loose_readd',
    ]
    WEIGHTS = {
        'add_object': 10,
        'add_streamed': 6,
        'add_objects_to_pack': 8,
        'add_streamed_objects_to_pack': 5,
        'add_streamed_object_to_pack': 3,
        'pack_all_loose': 8,
        'clean_storage': 6,
        'repack': 3,
        'repack_pack': 2,
        'delete': 4,
        'loosen': 2,
        'seek_read': 2,
        'import': 3,
        'reopen': 2,
        'init_again': 1,
        'damage_loose_readd': 0,
    }

    def __init__(self, rnd: random.Random, allow=None, pool_size=10, no_holes_p=0.5, big_p=0.03, chunk_p=0.1,
                 weights=None, handles=1):
        self.rnd = rnd
        self.handles = ['main'] + [f'h{i}' for i in range(2, handles + 1)]
        self.allow = [o for o in (allow or self.ALL_OPS) if o in self.ALL_OPS]
        self.weights = dict(self.WEIGHTS)
        if weights:
            self.weights.update(weights)
        self.big_p, self.chunk_p = big_p, chunk_p
        self.pool = [random_spec(rnd, big_p, chunk_p) for _ in range(pool_size)]
        self.no_holes_p = no_holes_p
        self.present: list = []  # specs believed present (symbolic, by spec identity)
        self.packs_guess = 0

    # -- content choice --------------------------------------------------------------
    def spec(self):
        r = self.rnd.random()
        if self.present and r < 0.35:
            return self.rnd.choice(self.present)
        if r < 0.8:
            return self.rnd.choice(self.pool)
        return random_spec(self.rnd, self.big_p, self.chunk_p)

    def batch(self, lo=1, hi=7):
        n = self.rnd.randint(lo, hi)
        out = [self.spec() for _ in range(n)]
        if n >= 2 and self.rnd.random() < 0.4:  # duplicate inside the batch
            out[self.rnd.randrange(n)] = out[self.rnd.randrange(n)]
        return out

    def _note(self, specs):
        for s in specs:
            if s not in self.present:
                self.present.append(s)

    def _direct_flags(self):
        rnd = self.rnd
        no_holes = rnd.random() < self.no_holes_p
        return {
            'compress': rnd.random() < 0.5,
            'no_holes': no_holes,
            'read_twice': rnd.random() < 0.5,
            'callback': rnd.random() < 0.25,
        }

    def compress_mode(self):
        return self.rnd.choice(COMPRESS_MODES + [True, False])

    # -- one operation ----------------------------------------------------------------
    def op(self) -> dict:
        rnd = self.rnd
        names = [o for o in self.allow if self.weights.get(o, 0) > 0]
        name = rnd.choices(names, weights=[self.weights[o] for o in names])[0]
        if name == 'add_object':
            s = self.spec()
            self._note([s])
            return {'op': name, 'c': s}
        if name == 'add_streamed':
            s = self.spec()
            self._note([s])
            return {'op': name, 'c': s, 'stream': rnd.choice(['bytesio', 'dribble', 'file'])}
        if name == 'add_objects_to_pack':
            b = self.batch()
            self._note(b)
            return {'op': name, 'cs': b, **self._direct_flags()}
        if name == 'add_streamed_objects_to_pack':
            b = self.batch()
            self._note(b)
            return {'op': name, 'cs': b, 'streams': rnd.choice(['bytesio', 'lazy', 'file', 'dribble']), **self._direct_flags()}
        if name == 'add_streamed_object_to_pack':
            s = self.spec()
            self._note([s])
            return {'op': name, 'c': s, 'stream': rnd.choice(['bytesio', 'dribble']), **self._direct_flags()}
        if name == 'pack_all_loose':
            return {
                'op': name,
                'compress': self.compress_mode(),
                'validate': rnd.random() < 0.7,
                'clpp': rnd.random() < 0.5,
                'callback': rnd.random() < 0.2,
            }
        if name == 'clean_storage':
            return {'op': name, 'vacuum': rnd.random() < 0.3}
        if name == 'repack':
            return {'op': name, 'mode': rnd.choice(COMPRESS_MODES), 'callback': rnd.random() < 0.2}
        if name == 'repack_pack':
            return {'op': name, 'mode': rnd.choice(COMPRESS_MODES), 'pack': rnd.randrange(0, 4)}
        if name == 'delete':
            k = rnd.randint(0, 3)
            chosen = [rnd.choice(self.present) for _ in range(k)] if self.present else []
            if chosen and rnd.random() < 0.3:
                chosen.append(chosen[0])  # repeated key
            absent = [random_spec(rnd, 0, 0) for _ in range(rnd.randint(0, 2))]
            for s in chosen:
                if s in self.present:
                    self.present.remove(s)
            return {'op': name, 'cs': chosen, 'absent': absent}
        if name in ('loosen', 'seek_read'):
            s = rnd.choice(self.present) if self.present else self.spec()
            return {'op': name, 'c': s, 'prog': rnd.randrange(4)}
        if name == 'import':
            src_specs = self.batch(1, 6)
            req = [s for s in src_specs if rnd.random() < 0.8]
            self._note(req)
            return {
                'op': name,
                'src_cfg': random_config(rnd),
                'src_cs': src_specs,
                'src_pack': rnd.choice([None, 'no', 'yes', 'direct', 'direct_z']),
                'req': req,
                'absent': [random_spec(rnd, 0, 0) for _ in range(rnd.randint(0, 1))],
                'compress': rnd.random() < 0.5,
                'tmb': rnd.choice([1, 100, 1000, 5000, 104857600]),
                'iter': 'list',
                'callback': rnd.random() < 0.3,
            }
        if name == 'reopen':
            return {'op': name}
        if name == 'init_again':
            return {'op': name, 'bad': rnd.choice([None, None, 'hash_type', 'prefix', 'pack_size'])}
        if name == 'damage_loose_readd':
            s = rnd.choice(self.present) if self.present else self.spec()
            self._note([s])
            return {'op': name, 'c': s, 'damage': rnd.choice(['flip', 'truncate', 'empty', 'extend']),
                    'via': rnd.choice(['add_object', 'add_streamed'])}
        raise AssertionError(name)

    def history(self, nsteps: int) -> list[dict]:
        out = []
        for _ in range(nsteps):
            op = self.op()
            if len(self.handles) > 1 and op['op'] not in ('init_again',):
                op['h'] = self.rnd.choice(self.handles)
            out.append(op)
        return out
