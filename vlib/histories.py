"""History runner: executes a generated (or replayed) API history in a scratch container and
runs the monitors a check selected after every step.

Monitors (each is an oracle over what the step left behind):
  views     every public view of the acting handle == model                       (C02)
  fresh     the same on a freshly opened handle every few steps                    (C02)
  raw       index/pack/loose self-consistency with sqlite3 + zlib only              (C03)
  recovery  the documented bash recovery script on a sample of packed objects      (C03)
  validate  validate().is_valid() on every reached state                           (C12, no false positives)
  append    packs append-only / consecutive / filled in order                      (C13)
  dedup     no second copy, no_holes leaves no unreferenced bytes                  (C09)
  census    open descriptors under the container root                              (C18)
"""
from __future__ import annotations

import hashlib
import os
import random
import re
import shutil
import subprocess
import traceback
from collections import Counter

from . import common, gen, model, rawread

REPACK_OPS = {'repack', 'repack_pack'}


# ------------------------------------------------------------------------------- C13 monitor
class AppendMonitor:
    def __init__(self, world):
        self.world = world
        self.pre = None

    def snap(self):
        snap = rawread.Snapshot(self.world.root)
        packs = {}
        for name in snap.packs:
            if name.isdigit():
                with open(os.path.join(self.world.root, 'packs', name), 'rb') as fh:
                    packs[int(name)] = fh.read()
        return snap, packs

    def before(self, op):
        self.pre = self.snap()

    def check_events(self, op, events):
        """Write-event log of the step (E1): where and in which order pack files were written."""
        world = self.world
        pre_snap, pre_packs = self.pre
        ends = Counter()
        for row in pre_snap.rows:
            ends[row.pack_id] = max(ends[row.pack_id], row.offset + row.length)
        pre_ids = sorted(pre_packs)
        highest = pre_ids[-1] if pre_ids else -1
        max_written = -1
        for ev in events:
            if ev.cls != 'packs':
                continue
            name = os.path.basename(ev.path)
            if not name.isdigit():
                continue
            pid = int(name)
            kind, det = ev.kind, ev.detail or {}
            if kind in ('remove', 'unlink', 'rename', 'replace', 'rmtree'):
                world.problem('append:pack-file-removed', f'{op["op"]}: {ev.brief()} on a pack file in a history without repack')
                continue
            effect = None
            if kind == 'open-w' and ('w' in det.get('mode', '')) and pid in pre_packs:
                effect = ('truncate', 0)
            elif kind == 'os.open-w' and det.get('flags', 0) & os.O_TRUNC and pid in pre_packs:
                effect = ('truncate', 0)
            elif kind == 'truncate':
                effect = ('truncate', det.get('size'))
            elif kind == 'os.truncate':
                effect = ('truncate', 0)
            elif kind == 'write' and det.get('n', 0) != 0:
                effect = ('write', det.get('pos'))
            if effect is None:
                continue
            world.counters['iolog-pack-writes'] += 1
            what, pos = effect
            if pos is not None and pos < ends[pid]:
                world.problem('append:write-inside-referenced-data',
                              f'{op["op"]}: {what} at offset {pos} of packs/{pid}, below its last referenced byte {ends[pid]}')
            if what == 'write':
                if pid < highest:
                    world.problem('append:write-to-full-pack',
                                  f'{op["op"]}: write to packs/{pid} although packs/{highest} already existed before the step')
                if pid < max_written:
                    world.problem('append:write-order', f'{op["op"]}: packs/{pid} written after packs/{max_written}')
                max_written = max(max_written, pid)

    def after(self, op):
        world = self.world
        (pre_snap, pre_packs), (post_snap, post_packs) = self.pre, self.snap()
        target = world.cfg['pack_size_target']
        if op['op'] in REPACK_OPS:
            return
        world.counters['append-checks'] += 1
        ends = Counter()
        for row in pre_snap.rows:
            ends[row.pack_id] = max(ends[row.pack_id], row.offset + row.length)
            old = pre_packs.get(row.pack_id, b'')[row.offset:row.offset + row.length]
            new = post_packs.get(row.pack_id, b'')[row.offset:row.offset + row.length]
            if old != new:
                world.problem('append:referenced-bytes-changed',
                              f'{op["op"]}: bytes referenced by {row.hashkey} in packs/{row.pack_id} changed')
        for pid, end in ends.items():
            if len(post_packs.get(pid, b'')) < end:
                world.problem('append:pack-shrank',
                              f'{op["op"]}: packs/{pid} is {len(post_packs.get(pid, b""))} bytes, below its last referenced byte {end}')
        ids = sorted(post_packs)
        if ids != list(range(len(ids))):
            world.problem('append:ids-not-consecutive', f'{op["op"]}: pack ids are {ids}')
        for pid in ids[:-1]:
            if len(post_packs[pid]) < target:
                world.problem('append:non-highest-below-target',
                              f'{op["op"]}: packs/{pid} has {len(post_packs[pid])} bytes < target {target} but packs/{ids[-1]} exists')
        pre_ids = sorted(pre_packs)
        for pid in pre_ids[:-1]:
            if pre_packs[pid] != post_packs.get(pid):
                world.problem('append:full-pack-rewritten',
                              f'{op["op"]}: packs/{pid} was not the highest pack before the step but changed')
        for pid in pre_ids:
            # a pack only ever grows at its end: the part up to the last referenced byte is a prefix
            if post_packs.get(pid, b'')[:ends[pid]] != pre_packs[pid][:ends[pid]]:
                world.problem('append:prefix-changed', f'{op["op"]}: referenced prefix of packs/{pid} changed')
        if len(ids) > 1:
            world.counters['append-multi-pack-states'] += 1


# ------------------------------------------------------------------------------- C09 monitor
class DedupMonitor:
    DIRECT = {'add_objects_to_pack', 'add_streamed_objects_to_pack', 'add_streamed_object_to_pack'}

    def __init__(self, world):
        self.world = world
        self.pre = None

    def before(self, op):
        self.pre = rawread.Snapshot(self.world.root)

    def after(self, op):
        world = self.world
        pre, post = self.pre, rawread.Snapshot(world.root)
        world.counters['dedup-checks'] += 1
        by_key = Counter(r.hashkey for r in post.rows)
        for key, n in by_key.items():
            if n > 1:
                world.problem('dedup:two-rows', f'{op["op"]}: key {key} has {n} index rows')
        union = set(post.loose) | set(by_key)
        if len(union) != len(world.model):
            world.problem('dedup:count', f'{op["op"]}: {len(union)} objects on disk but {len(world.model)} distinct contents')
        if op['op'] in self.DIRECT and op.get('no_holes'):
            world.counters['dedup-no-holes-calls'] += 1
            pre_keys = {r.hashkey for r in pre.rows}
            new_rows = [r for r in post.rows if r.hashkey not in pre_keys]
            grow = post.packfile_bytes() - pre.packfile_bytes()
            want = sum(r.length for r in new_rows)
            specs = op['cs'] if 'cs' in op else [op['c']]
            known = [world.key(s) in pre_keys for s in specs]
            if any(known):
                world.counters['dedup-no-holes-known-content'] += 1
            if not op.get('read_twice', True) and any(known):
                world.counters['dedup-no-holes-rewind'] += 1
            if grow != want:
                world.problem(
                    'dedup:no-holes-unreferenced-bytes',
                    f'{op["op"]}(no_holes=True, read_twice={op.get("read_twice", True)}): packs grew by {grow} bytes '
                    f'but the {len(new_rows)} newly indexed objects occupy {want}')
            if all(known) and grow != 0:
                world.problem('dedup:no-holes-grew-for-known',
                              f'{op["op"]}(no_holes=True): pack grew by {grow} although all contents were already packed')
            unref = post.packfile_bytes() - post.referenced_bytes()
            pre_unref = pre.packfile_bytes() - pre.referenced_bytes()
            if unref > pre_unref:
                world.problem('dedup:no-holes-unreferenced-bytes',
                              f'{op["op"]}(no_holes=True): unreferenced pack bytes went from {pre_unref} to {unref}')


# ------------------------------------------------------------------------------- C03 recovery
_SCRIPT_CACHE: dict = {}


def recovery_script(tmpdir: str) -> str | None:
    """Extract the documented recovery script; replace zlib-flate (qpdf, not installed) by python zlib."""
    if 'path' in _SCRIPT_CACHE and os.path.exists(_SCRIPT_CACHE['path']):
        return _SCRIPT_CACHE['path']
    doc = os.path.join(common.REPO, 'docs', 'pages', 'design.md')
    try:
        text = open(doc, encoding='utf8').read()
    except OSError:
        return None
    match = re.search(r'```bash\n(#!/bin/bash\nCONTAINER_PATH=.*?)```', text, re.S)
    if not match or shutil.which('bash') is None:
        return None
    script = match.group(1)
    # the sqlite3 command-line shell: the one on PATH, else well-known locations of this image; if there is none at all, a
    # minimal stand-in built on Python's sqlite3 module that prints rows exactly like the shell's default list mode
    cli = shutil.which('sqlite3') or next((c for c in ('/root/miniconda/bin/sqlite3', '/usr/bin/sqlite3', '/usr/local/bin/sqlite3',
                                                       '/opt/conda/bin/sqlite3') if os.path.exists(c)), None)
    shim = os.path.join(tmpdir, 'sqlite3')
    if cli is not None:
        with open(shim, 'w', encoding='utf8') as fh:
            fh.write(f'#!/bin/sh\nexec {cli} "$@"\n')
        _SCRIPT_CACHE['sqlite'] = 'cli'
    else:
        with open(shim, 'w', encoding='utf8') as fh:
            fh.write('#!/bin/sh\nexec /venv/bin/python -c "import sys,sqlite3;con=sqlite3.connect(sys.argv[1]);'
                     '[print(chr(124).join(str(c) for c in r)) for r in con.execute(sys.argv[2])]" "$@"\n')
        _SCRIPT_CACHE['sqlite'] = 'python-stand-in'
    os.chmod(shim, 0o755)
    inflate = os.path.join(tmpdir, 'zlib-flate')
    with open(inflate, 'w', encoding='utf8') as fh:
        fh.write('#!/bin/sh\nexec /venv/bin/python -c "import sys,zlib;'
                 'sys.stdout.buffer.write(zlib.decompress(sys.stdin.buffer.read()))"\n')
    os.chmod(inflate, 0o755)
    path = os.path.join(tmpdir, 'recover.sh')
    with open(path, 'w', encoding='utf8') as fh:
        fh.write(script)
    os.chmod(path, 0o755)
    _SCRIPT_CACHE['path'] = path
    _SCRIPT_CACHE['bindir'] = tmpdir
    return path


def run_recovery(world, tmpdir: str, nsample: int = 2):
    script = recovery_script(tmpdir)
    if script is None:
        world.counters['recovery-unavailable'] += 1
        return
    snap = rawread.Snapshot(world.root)
    rows = [r for r in snap.rows if r.hashkey in world.model]
    rnd = random.Random(len(rows))
    env = dict(os.environ)
    env['PATH'] = _SCRIPT_CACHE['bindir'] + os.pathsep + env.get('PATH', '')
    chosen = rnd.sample(rows, min(nsample, len(rows)))
    zrows = [r for r in rows if r.compressed and r not in chosen]
    if zrows and not any(r.compressed for r in chosen):
        chosen[-1:] = [rnd.choice(zrows)]  # make sure the inflate branch of the script is exercised when possible
    for row in chosen:
        proc = subprocess.run(['bash', script, world.root, row.hashkey], capture_output=True, env=env, timeout=60,
                              check=False)
        if False:
            world.counters['recovery-unavailable'] += 1  # CLI refuses the documented quoting: tool issue
            return
        world.counters['recovery-script-runs'] += 1
        world.counters[f'recovery-script-runs-with-sqlite-{_SCRIPT_CACHE.get("sqlite")}'] += 1
        if row.compressed:
            world.counters['recovery-script-runs-compressed'] += 1
        if proc.returncode != 0 or proc.stdout != world.model[row.hashkey]:
            world.problem('raw:recovery-script',
                          f'documented recovery script failed for {row.hashkey}: rc={proc.returncode} '
                          f'{len(proc.stdout)} bytes, stderr={proc.stderr[-200:]!r}')


# ------------------------------------------------------------------------------- runner
def generate(case: dict):
    rnd = random.Random(f'{case["prop"]}-{case["seed"]}')
    cfg = case.get('cfg') or gen.random_config(rnd)
    if case.get('pack_targets'):
        cfg['pack_size_target'] = rnd.choice(case['pack_targets'])
    if case.get('ops') is not None:
        return cfg, case['ops']
    hgen = gen.HistoryGen(rnd, **case.get('gen', {}))
    nsteps = rnd.randint(*case.get('steps', (8, 30)))
    return cfg, hgen.history(nsteps)


def run_history(case: dict) -> dict:  # noqa: C901  pylint: disable=too-many-branches,too-many-statements
    """Worker: one history, monitors after every step."""
    from . import census  # pylint: disable=import-outside-toplevel

    cfg, ops = generate(case)
    monitors = set(case['monitors'])
    base = common.mkscratch('hist-')
    root = os.path.join(base, 'c')
    world = None
    fail_step = None
    try:
        world = model.World(root, cfg, aux=os.path.join(base, 'aux'))
        mons = []
        if 'append' in monitors:
            mons.append(AppendMonitor(world))
        if 'dedup' in monitors:
            mons.append(DedupMonitor(world))
        for i, op in enumerate(ops):
            for mon in mons:
                mon.before(op)
            recorder = None
            model_before = dict(world.model) if len(world.handles) > 1 or op.get('h', 'main') != 'main' else None
            if 'iolog' in monitors:
                from . import iotrace  # pylint: disable=import-outside-toplevel

                recorder = iotrace.Recorder()
                iotrace.install([root], plan=recorder, audit=True)
            if case.get('tolerate_stale_writer') and op['op'] == 'delete':
                # deletion is documented as an exclusive maintenance operation ("when no process is accessing the repository"):
                # every client is restarted around it (a handle with a stale index snapshot would otherwise remove the loose copy and
                # then be refused by SQLite, or later treat a deleted object as still packed)
                world.close()
            try:
                world.apply(op)
            except Exception as exc:  # noqa: BLE001 - an operation of a legal history must not raise
                if (case.get('tolerate_stale_writer') and model_before is not None
                        and 'database is locked' in str(exc)):
                    # a handle whose index snapshot is stale is refused by SQLite when it tries to write: loud, not a
                    # layout violation; the harness reopens that handle and the model forgets the refused call
                    world.counters['stale-writer-refused'] += 1
                    world.model = model_before
                    hname = op.get('h', 'main')
                    try:
                        world.handles.pop(hname).close()
                    except Exception:  # noqa: BLE001
                        pass
                else:
                    world.problem(f'op-raised:{op["op"]}:{type(exc).__name__}',
                                  f'{op["op"]} raised {exc!r} :: {traceback.format_exc()[-700:]}')
            finally:
                if case.get('tolerate_stale_writer') and op['op'] == 'delete':
                    world.close()
                if recorder is not None:
                    blind = list(iotrace.BLIND)
                    iotrace.uninstall()
                    del iotrace.BLIND[:]
                    if blind:
                        world.problem('inconclusive:shim-blind-spot', f'{op["op"]}: file-system access not seen by the shim: {blind[:3]}')
            if recorder is not None and not world.problems:
                world.counters['iolog-events'] += len(recorder.events)
                for mon in mons:
                    if hasattr(mon, 'check_events'):
                        mon.check_events(op, recorder.events)
            if not world.problems:
                for mon in mons:
                    mon.after(op)
            if 'views' in monitors and not world.problems and (i % case.get('views_every', 1) == 0 or i == len(ops) - 1):
                world.check_views(op.get('h', 'main'))
            if 'fresh' in monitors and not world.problems and (i % 4 == 3 or i == len(ops) - 1):
                from disk_objectstore import Container  # pylint: disable=import-outside-toplevel

                with Container(root) as fresh:
                    world.check_views(cont=fresh, tag='fresh')
                world.counters['fresh-handle-checks'] += 1
            if 'raw' in monitors and not world.problems:
                world.counters['raw-checks'] += 1
                snap = rawread.Snapshot(root)
                for prob in snap.consistency_problems():
                    world.problem('raw:' + prob.split(':')[0].split(' ')[0], f'after {op["op"]}: {prob}')
                for key, data in world.model.items():
                    got, prob = snap.read_key(key)
                    if got != data:
                        world.problem('raw:unrecoverable', f'after {op["op"]}: raw read of {key} gives {prob or "other bytes"}')
                world.counters['raw-rows-checked'] += len(snap.rows)
                world.counters['raw-loose-checked'] += len(snap.loose)
            if 'recovery' in monitors and not world.problems and (i == len(ops) - 1 or (case.get('recovery_every') and i % case['recovery_every'] == 0)):
                run_recovery(world, os.path.join(base, 'aux'))
            if 'validate' in monitors and not world.problems:
                world.counters['validate-calls'] += 1
                try:
                    rep = world.handle('main').validate()
                    if not rep.is_valid():
                        world.problem('validate:false-positive', f'after {op["op"]}: validate() reports {rep}')
                except Exception as exc:  # noqa: BLE001
                    world.problem('validate:raised', f'after {op["op"]}: validate() raised {exc!r}')
            if 'census' in monitors and not world.problems:
                census.quiescent_check(world, op)
            if world.problems:
                fail_step = i
                break
        if 'census' in monitors and not world.problems:
            census.after_close_check(world)
        kinds = Counter(o['op'] for o in ops)
        sig = common.digest([cfg, [[o['op'], o.get('compress'), o.get('no_holes'), o.get('read_twice'), o.get('mode')]
                                   for o in ops]])
        vios = []
        inconc = [msg for mech, msg in world.problems if mech.startswith('inconclusive:')]
        if inconc:
            return common.case_result(sig=sig, nontrivial=False, counters=Counter(world.counters), inconclusive=inconc[0])
        for mech, msg in world.problems[:3]:
            vios.append(common.violation(mech, msg, {'cfg': cfg, 'ops': ops[: (fail_step or 0) + 1], 'case_seed': case['seed'],
                                                      'monitors': sorted(monitors)}))
        counters = Counter(world.counters)
        counters['steps'] = (fail_step + 1) if fail_step is not None else len(ops)
        for k, v in kinds.items():
            counters[f'gen:{k}'] += v
        return common.case_result(
            sig=sig,
            nontrivial=len(kinds) >= 3 and counters['steps'] >= 3,
            counters=counters,
            violations=vios,
            sample={'cfg': cfg, 'ops': [_short(o) for o in ops[:12]], 'n_ops': len(ops)},
        )
    finally:
        if world is not None:
            world.close()
        common.rmtree(base)


def _short(op: dict) -> dict:
    out = {}
    for k, v in op.items():
        if k in ('cs', 'src_cs', 'req', 'absent'):
            out[k] = [f'{s[0]}:{s[1]}' for s in v]
        elif k == 'c':
            out[k] = f'{v[0]}:{v[1]}'
        else:
            out[k] = v
    return out
