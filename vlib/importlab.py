"""C14: import_objects between two generated containers, with a full before/after comparison of the destination."""
from __future__ import annotations

import hashlib
import os
import random
from collections import Counter

from . import common, gen, model, rawread

ITER_KINDS = ['list', 'tuple', 'set', 'dictkeys', 'generator', 'iter']


def H(data, hash_type):  # noqa: N802
    return hashlib.new(hash_type, data).hexdigest()


def gen_case(rnd: random.Random) -> dict:
    sizes = [0, 1, 30, 200, 900, 1500, 4000, 70000]
    nsrc = rnd.randint(2, 8)
    src = [[rnd.choice(gen.KINDS), rnd.choice(sizes), rnd.randrange(1 << 20)] for _ in range(nsrc)]
    if rnd.random() < 0.3:
        src.append(['text', 150000, rnd.randrange(1 << 20)])
    dst_own = [[rnd.choice(gen.KINDS), rnd.choice(sizes[:6]), rnd.randrange(1 << 20)] for _ in range(rnd.randint(0, 4))]
    shared = [s for s in src if rnd.random() < 0.35]
    req = [s for s in src if rnd.random() < 0.8]
    all_sizes = sorted({s[1] for s in src})
    tmb = rnd.choice([1, 1, 100, all_sizes[len(all_sizes) // 2] + 1, sum(all_sizes) // 2 + 1, 104857600, 104857600])
    return {
        'src_cfg': {'hash_type': rnd.choice(['sha1', 'sha256']), 'loose_prefix_len': rnd.choice([0, 2]),
                    'compression_algorithm': f'zlib+{rnd.randrange(1, 10)}', 'pack_size_target': rnd.choice([300, 4 * 1024 ** 3])},
        'dst_cfg': {'hash_type': rnd.choice(['sha1', 'sha256']), 'loose_prefix_len': rnd.choice([0, 2, 3]),
                    'compression_algorithm': f'zlib+{rnd.randrange(1, 10)}', 'pack_size_target': rnd.choice([300, 5000, 4 * 1024 ** 3])},
        'src': src, 'src_form': rnd.choice(['loose', 'plain', 'zipped', 'mixed']),
        'dst_own': dst_own, 'shared': shared, 'dst_form': rnd.choice(['loose', 'plain', 'zipped', 'mixed']),
        'req': req, 'absent': [['rnd', 7, rnd.randrange(1 << 20)] for _ in range(rnd.randint(0, 2))],
        'repeat': rnd.random() < 0.3, 'iter': rnd.choice(ITER_KINDS), 'callback': rnd.random() < 0.5,
        'compress': rnd.random() < 0.5, 'tmb': tmb,
    }


def _fill(cont, datas, form, rnd):
    if form == 'loose':
        for d in datas:
            cont.add_object(d)
    elif form in ('plain', 'zipped'):
        if datas:
            cont.add_objects_to_pack(datas, compress=form == 'zipped')
    else:
        for d in datas:
            cont.add_object(d)
        if rnd.random() < 0.8:
            cont.pack_all_loose(compress=rnd.random() < 0.5)
        extra = [d for d in datas if rnd.random() < 0.4]
        if rnd.random() < 0.6:
            cont.clean_storage()
        for d in extra:
            cont.add_object(d)  # loose again (and packed): both forms


def run_one(case, base, counters):  # noqa: C901
    """Returns list of (mechanism, message)."""
    from disk_objectstore import Container  # pylint: disable=import-outside-toplevel

    rnd = random.Random(common.digest(case))
    probs = []
    src_h, dst_h = case['src_cfg']['hash_type'], case['dst_cfg']['hash_type']
    same = src_h == dst_h
    src = Container(os.path.join(base, 'src'))
    src.init_container(clear=True, **case['src_cfg'])
    dst = Container(os.path.join(base, 'dst'))
    dst.init_container(clear=True, **case['dst_cfg'])
    try:
        src_datas = [gen.content(s) for s in case['src']]
        _fill(src, src_datas, case['src_form'], rnd)
        src_model = {H(d, src_h): d for d in src_datas}
        dst_datas = [gen.content(s) for s in case['dst_own'] + case['shared']]
        _fill(dst, dst_datas, case['dst_form'], rnd)
        dst_model = {H(d, dst_h): d for d in dst_datas}
        dst.close()  # everything committed; a fresh handle performs the import
        dst = Container(os.path.join(base, 'dst'))
        before = rawread.Snapshot(os.path.join(base, 'dst'))
        before_rows = {r.hashkey: r for r in before.rows}

        req = [H(gen.content(s), src_h) for s in case['req']] + [H(gen.content(s), src_h) for s in case['absent']]
        if case['repeat'] and req:
            req = req + req[:2]
        rnd.shuffle(req)
        keys_arg = {
            'list': lambda: list(req), 'tuple': lambda: tuple(req), 'set': lambda: set(req),
            'dictkeys': lambda: dict.fromkeys(req).keys(), 'generator': lambda: (k for k in req),
            'iter': lambda: iter(list(req)),
        }[case['iter']]()
        cb = model.Recorder() if case['callback'] else None
        # count the three cache branches through instance-level wrappers on the destination handle
        orig_stream, orig_bulk = dst.add_streamed_object_to_pack, dst.add_objects_to_pack
        calls = Counter()

        def spy_stream(*a, **k):
            calls['streamed'] += 1
            return orig_stream(*a, **k)

        def spy_bulk(*a, **k):
            calls['bulk'] += 1
            return orig_bulk(*a, **k)

        dst.add_streamed_object_to_pack, dst.add_objects_to_pack = spy_stream, spy_bulk
        try:
            mapping = dst.import_objects(keys_arg, src, compress=case['compress'], target_memory_bytes=case['tmb'], callback=cb)
        finally:
            del dst.add_streamed_object_to_pack, dst.add_objects_to_pack
        counters['imports'] += 1
        counters[f'iter:{case["iter"]}'] += 1
        counters['with-callback' if cb else 'without-callback'] += 1
        counters['same-hash' if same else 'different-hash'] += 1
        if calls['streamed']:
            counters['branch:streamed-big-object'] += 1
        if calls['bulk'] > 1:
            counters['branch:cache-flushed-midway'] += 1
        if calls['bulk'] >= 1:
            counters['branch:final-flush'] += 1
        wanted = {k: H(src_model[k], dst_h) for k in set(req) if k in src_model}
        if wanted:
            counters['imports-with-requested-present'] += 1
        # mapping
        for sk, dk in mapping.items():
            if sk not in wanted:
                probs.append(('import:mapping-extra-key', f'mapping mentions {sk[:10]} which was not a requested key held by the source'))
            elif dk != wanted[sk]:
                probs.append(('import:mapping-wrong', f'mapping sends {sk[:10]} to {dk[:10]}, expected {wanted[sk][:10]}'))
        post_model = dict(dst_model)
        for sk, dk in wanted.items():
            post_model[dk] = src_model[sk]
        # every requested object the source holds is in the destination, byte-identical, under its destination key
        fresh = Container(os.path.join(base, 'dst'))
        try:
            for sk, dk in wanted.items():
                try:
                    got = fresh.get_object_content(dk)
                except Exception as exc:  # noqa: BLE001
                    probs.append(('import:object-not-transferred',
                                  f'requested object {sk[:10]} (held by the source) is not readable in the destination as {dk[:10]}: {exc!r} '
                                  f'[iter={case["iter"]} callback={bool(cb)} same_hash={same} tmb={case["tmb"]}]'))
                    continue
                if got != src_model[sk]:
                    probs.append(('import:bytes-differ', f'object {dk[:10]} differs from the source object {sk[:10]}'))
            # other objects untouched, nothing else appeared
            got_all = fresh.get_objects_content(list(post_model))
            for k, d in dst_model.items():
                if got_all.get(k) != d:
                    probs.append(('import:other-object-changed', f'destination object {k[:10]} changed/disappeared'))
            listed = sorted(fresh.list_all_objects())
            if listed != sorted(post_model) and not any(m == 'import:object-not-transferred' for m, _ in probs):
                probs.append(('import:unexpected-keys', f'destination lists {len(listed)} keys, expected {len(post_model)}: '
                                                        f'extra {sorted(set(listed) - set(post_model))[:2]} missing {sorted(set(post_model) - set(listed))[:2]}'))
            if not fresh.validate().is_valid():
                probs.append(('import:validate', 'destination does not validate after the import'))
        finally:
            fresh.close()
        after = rawread.Snapshot(os.path.join(base, 'dst'))
        per_key = Counter(r.hashkey for r in after.rows)
        for k, n in per_key.items():
            if n > 1:
                probs.append(('import:second-index-entry', f'{k[:10]} has {n} index entries'))
        for k, row in before_rows.items():
            now = [r for r in after.rows if r.hashkey == k]
            if not now or now[0][1:] != row[1:]:
                probs.append(('import:existing-row-changed', f'index row of {k[:10]} changed: {row} -> {now}'))
        new_rows = [r for r in after.rows if r.hashkey not in before_rows]
        grow = after.packfile_bytes() - before.packfile_bytes()
        newlen = sum(r.length for r in new_rows)
        had = set(before_rows) | set(before.loose)
        if any(dk in had for dk in wanted.values()):
            counters['imports-with-already-present-objects'] += 1
        if same:
            if grow != newlen:
                probs.append(('import:rewrote-known-objects',
                              f'same hash type: packs grew by {grow} bytes but the {len(new_rows)} newly indexed objects occupy {newlen}'))
            rewritten = [r.hashkey for r in new_rows if r.hashkey in before.loose]
            if rewritten:
                probs.append(('import:rewrote-known-objects', f'objects already held loose were written again: {rewritten[:2]}'))
        for problem in after.consistency_problems():
            probs.append(('import:raw-inconsistent', problem))
        for k in [H(gen.content(s), src_h) for s in case['absent']]:
            if k in mapping:
                probs.append(('import:absent-key-had-effect', f'absent key {k[:10]} appears in the mapping'))
        if cb is not None:
            acts = [a for a, _ in cb.calls]
            if acts.count('init') != acts.count('close'):
                probs.append(('import:callback-protocol', f'callback saw {acts.count("init")} init and {acts.count("close")} close'))
        return probs
    finally:
        src.close()
        dst.close()


def run_cases(case):
    """Worker: a batch of generated (or one explicit) import cases."""
    rnd = random.Random(f'import-{case["seed"]}')
    base = common.mkscratch('imp-')
    counters, vios, seen = Counter(), [], set()
    sample = None
    try:
        for i in range(case['n']):
            one = case.get('explicit') or gen_case(rnd)
            if case.get('force'):
                f = case['force'][i % len(case['force'])]
                one.update({'iter': f['iter'], 'callback': f['callback']})
                one['src_cfg']['hash_type'], one['dst_cfg']['hash_type'] = f['src_hash'], f['dst_hash']
            sub = os.path.join(base, f'i{i}')
            os.makedirs(sub)
            try:
                probs = run_one(one, sub, counters)
            except Exception as exc:  # noqa: BLE001 - import_objects on valid input must not raise
                import traceback  # pylint: disable=import-outside-toplevel

                probs = [('import:raised', f'{exc!r} :: {traceback.format_exc()[-500:]}')]
            finally:
                common.rmtree(sub)
            seen.add(common.digest(one))
            for mech, msg in probs[:2]:
                vios.append(common.violation(mech, msg, {'explicit': one}))
            if sample is None:
                sample = {k: v for k, v in one.items() if k not in ('src', 'dst_own', 'shared', 'req', 'absent')}
                sample['src_sizes'] = [s[1] for s in one['src']]
            if len(vios) >= 8 or case.get('explicit'):
                break
        res = common.case_result(sig=f'imp{case["seed"]}', nontrivial=True, counters=counters, violations=vios, sample=sample)
        res['distinct'] = len(seen)
        res['evaluations'] = counters['imports']
        return res
    finally:
        common.rmtree(base)
