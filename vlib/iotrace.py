"""E1: in-process I/O interposition layer - the observation point of the runtime monitors.

``install()`` replaces, process-wide, the lowest Python-level entry points through which the library
can reach the file system or the index (``builtins.open``/``io.open``, the ``os.*`` calls, ``fcntl.fcntl``,
SQLAlchemy engine events).  Calls whose path is under a *registered root* produce an :class:`Event`
which is handed - **before the real call is made** - to the active *plan*: a callable that may record it,
kill the process (crash), raise an injected error (fault), run another actor inline (probe) or hand
control to the scheduler (yield).  Everything else (the interpreter's own I/O, the harness' files) goes
straight through.

A ``sys.addaudithook`` hook counts the audit events CPython raises for paths under the roots; an audit
event that no interposed call announced is a *blind spot* (the library reached the file system through
something this layer does not see) and makes the run inconclusive.
"""
from __future__ import annotations

import builtins
import errno
import fcntl
import io
import os
import shutil
import sys
import threading

_REAL = {}
_STATE = threading.local()
ROOTS: list[str] = []
PLAN = None  # callable(Event) or None
SEQ = 0
_LOCK = threading.Lock()
INSTALLED = False
FDPATH: dict[int, str] = {}
AUDIT_COUNTS: dict[str, int] = {}
ANNOUNCED = 0  # number of interposed events (compared with audit counts for the blind-spot guard)
BLIND: list[str] = []
_AUDIT_ON = False
_EXPECT: dict[str, int] = {}

MUTATING = {
    'open-w', 'write', 'flush', 'truncate', 'close-w', 'fsync', 'fdatasync', 'fcntl', 'rename', 'replace', 'link',
    'unlink', 'remove', 'mkdir', 'makedirs', 'rmdir', 'os.truncate', 'rmtree', 'sql:INSERT', 'sql:UPDATE', 'sql:DELETE',
    'sql:VACUUM', 'sql:COMMIT', 'sql:commit', 'sql:rollback', 'sql:CREATE', 'sql:PRAGMA', 'sql:ROLLBACK', 'sync',
}
CLASSES = ('loose', 'packs', 'sandbox', 'duplicates')


class Event:
    __slots__ = ('seq', 'actor', 'kind', 'path', 'cls', 'detail', 'root')

    def __init__(self, seq, actor, kind, path, cls, detail, root):
        self.seq, self.actor, self.kind, self.path, self.cls, self.detail, self.root = seq, actor, kind, path, cls, detail, root

    @property
    def mutating(self) -> bool:
        return self.kind in MUTATING

    def brief(self) -> str:
        rel = os.path.relpath(self.path, self.root) if self.path and self.root else (self.path or '')
        det = ''
        if self.detail:
            det = ' ' + ','.join(f'{k}={v}' for k, v in self.detail.items() if k in ('mode', 'n', 'cmd', 'dst', 'size', 'sql'))
        return f'{self.kind}({_shorten(rel)}{det})'

    def shape(self) -> str:
        """Kind + path class, without names: used to count distinct traces."""
        return f'{self.kind}:{self.cls}'

    def as_dict(self):
        return {'seq': self.seq, 'actor': self.actor, 'kind': self.kind, 'cls': self.cls,
                'path': os.path.relpath(self.path, self.root) if self.path and self.root else self.path,
                'detail': {k: v for k, v in (self.detail or {}).items() if isinstance(v, (int, str, bool, type(None)))}}


def _shorten(rel: str) -> str:
    parts = rel.split(os.sep)
    return os.sep.join(p if len(p) <= 12 else p[:6] + '..' for p in parts)


def set_actor(name):
    _STATE.actor = name


def get_actor():
    return getattr(_STATE, 'actor', 'main')


def suspended() -> bool:
    return getattr(_STATE, 'suspend', 0) > 0


class passthrough:
    """Context manager: calls made by the harness itself are not events."""

    def __enter__(self):
        _STATE.suspend = getattr(_STATE, 'suspend', 0) + 1

    def __exit__(self, *exc):
        _STATE.suspend -= 1


def _root_of(path):
    if path is None:
        return None
    for root in ROOTS:
        if path == root or path.startswith(root + os.sep):
            return root
    return None


def _pathstr(path):
    try:
        if isinstance(path, int):
            return FDPATH.get(path) or _fd_target(path)
        p = os.fspath(path)
        if isinstance(p, bytes):
            p = os.fsdecode(p)
        if not os.path.isabs(p):
            p = os.path.abspath(p)
        return p
    except TypeError:
        return None


def _fd_target(fd):
    try:
        return _REAL['os.readlink'](f'/proc/self/fd/{fd}').replace(' (deleted)', '')
    except OSError:
        return None


def classify(root, path):
    rel = os.path.relpath(path, root)
    if rel == '.':
        return 'root'
    top = rel.split(os.sep)[0]
    if top in CLASSES:
        if top == 'packs' and rel.endswith('.lock'):
            return 'lock'
        return top
    if top.startswith('packs.idx'):
        return 'index'
    return 'other'


def emit(kind, path, detail=None):
    """Announce an event to the plan. Returns the Event, or None when the path is not under a root."""
    global SEQ, ANNOUNCED
    if suspended() or not ROOTS:
        return None
    root = _root_of(path)
    if root is None:
        return None
    with _LOCK:
        SEQ += 1
        seq = SEQ
        ANNOUNCED += 1
    ev = Event(seq, get_actor(), kind, path, classify(root, path), detail or {}, root)
    plan = PLAN
    if plan is not None:
        _STATE.suspend = getattr(_STATE, 'suspend', 0) + 1  # the plan's own I/O is not an event
        try:
            plan(ev)
        finally:
            _STATE.suspend -= 1
    return ev


# ------------------------------------------------------------------------------------ file proxy
class FileProxy:
    """Delegating proxy around the real file object (real buffering kept)."""

    def __init__(self, real, path, mode):
        object.__setattr__(self, '_f', real)
        object.__setattr__(self, '_p', path)
        object.__setattr__(self, '_w', any(c in mode for c in 'wax+'))
        object.__setattr__(self, '_m', mode)
        object.__setattr__(self, '_rs', 0)

    # -- intercepted ---------------------------------------------------------
    def write(self, data):
        pos = None
        if 'a' not in self._m:  # in append mode the kernel writes at EOF whatever the position
            try:
                pos = self._f.tell()
            except (OSError, ValueError):
                pos = None
        emit('write', self._p, {'n': len(data), 'mode': self._m, 'pos': pos})
        return self._f.write(data)

    def writelines(self, lines):
        emit('write', self._p, {'n': -1, 'mode': self._m})
        return self._f.writelines(lines)

    def flush(self):
        if self._w and not self._f.closed:
            emit('flush', self._p, None)
        return self._f.flush()

    def truncate(self, size=None):
        pos = size
        if pos is None:
            try:
                pos = self._f.tell()
            except (OSError, ValueError):
                pos = None
        emit('truncate', self._p, {'size': pos, 'mode': self._m})
        return self._f.truncate(size)

    def read(self, *args):
        if self._rs < 3:
            object.__setattr__(self, '_rs', self._rs + 1)
            emit('read', self._p, {'nth': self._rs})
        return self._f.read(*args)

    def close(self):
        if not self._f.closed:
            try:
                emit('close-w' if self._w else 'close-r', self._p, {'mode': self._m})
            except InjectedIOError:
                # a close() whose write-back fails: what was still buffered is lost (it must not reach the file later, when the
                # real object is finalised), the descriptor is closed, and the error is reported to the caller
                if self._w:
                    try:
                        devnull = _REAL['os.open'](os.devnull, os.O_WRONLY)
                        os.dup2(devnull, self._f.fileno())
                        _REAL['os.close'](devnull)
                        self._f.close()
                    except OSError:
                        pass
                raise
        return self._f.close()

    def __enter__(self):
        self._f.__enter__()
        return self

    def __exit__(self, *exc):
        self.close()
        return False

    def __iter__(self):
        return iter(self._f)

    def __next__(self):
        return next(self._f)

    def __getattr__(self, name):
        return getattr(self._f, name)

    def __setattr__(self, name, value):
        setattr(self._f, name, value)

    def __repr__(self):
        return f'<FileProxy {self._f!r}>'


# ------------------------------------------------------------------------------------ wrappers
def _w_open(file, mode='r', *args, **kwargs):
    path = FDPATH.get(file) if isinstance(file, int) else _pathstr(file)  # open(fd)/os.fdopen of a descriptor opened under a root
    if path is None or suspended() or _root_of(path) is None:
        return _REAL['open'](file, mode, *args, **kwargs)
    if isinstance(file, int):
        FDPATH.pop(file, None)  # the file object owns the descriptor from now on
        return FileProxy(_REAL['open'](file, mode, *args, **kwargs), path, mode)
    writable = any(c in mode for c in 'wax+')
    _expect('open')
    emit('open-w' if writable else 'open-r', path, {'mode': mode})
    real = _REAL['open'](file, mode, *args, **kwargs)
    return FileProxy(real, path, mode)


def _path_call(name, kind, nargs=1, dst=False):
    real = _REAL[name]

    def wrapper(*args, **kwargs):
        path = _pathstr(args[0]) if args else None
        if path is not None and not suspended() and _root_of(path) is not None:
            detail = None
            if dst and len(args) > 1:
                detail = {'dst': os.path.relpath(_pathstr(args[1]), _root_of(path))}
            _expect(name)
            emit(kind, path, detail)
        elif dst and len(args) > 1 and not suspended():
            p2 = _pathstr(args[1])
            if p2 is not None and _root_of(p2) is not None:
                _expect(name)
                emit(kind, p2, {'src': path})
        return real(*args, **kwargs)

    wrapper.__name__ = real.__name__
    wrapper.__wrapped__ = real
    return wrapper


def _w_os_open(path, flags, *args, **kwargs):
    p = _pathstr(path)
    hit = p is not None and not suspended() and _root_of(p) is not None
    if hit:
        _expect('open')
        writable = bool(flags & (os.O_WRONLY | os.O_RDWR | os.O_CREAT | os.O_TRUNC | os.O_APPEND))
        emit('os.open-w' if writable else 'os.open', p, {'flags': flags})
    fd = _REAL['os.open'](path, flags, *args, **kwargs)
    if hit:
        FDPATH[fd] = p
    return fd


def _w_os_close(fd):
    p = FDPATH.pop(fd, None)
    if p is not None and not suspended():
        emit('os.close', p, None)
    return _REAL['os.close'](fd)


def _fd_call(name, kind):
    real = _REAL[name]

    def wrapper(fd, *args, **kwargs):
        if not suspended() and ROOTS:
            p = _pathstr(fd if isinstance(fd, int) else getattr(fd, 'fileno', lambda: -1)())
            if p is not None and _root_of(p) is not None:
                detail = {'fd': fd if isinstance(fd, int) else -1}
                if name == 'fcntl.fcntl':
                    cmd = args[0] if args else kwargs.get('cmd')
                    detail['cmd'] = cmd
                    detail['is_sync'] = bool(hasattr(fcntl, 'F_FULLFSYNC') and cmd == getattr(fcntl, 'F_FULLFSYNC'))
                emit(kind, p, detail)
                res = real(fd, *args, **kwargs)
                post = POST_SYNC
                if post is not None and (kind in ('fsync', 'fdatasync') or detail.get('is_sync')):
                    _STATE.suspend = getattr(_STATE, 'suspend', 0) + 1
                    try:
                        post(p, kind)
                    finally:
                        _STATE.suspend -= 1
                return res
        return real(fd, *args, **kwargs)

    wrapper.__name__ = real.__name__
    wrapper.__wrapped__ = real
    return wrapper


POST_SYNC = None  # callable(path, kind) run right after a successful sync of a file under a root


def _w_os_write(fd, data):
    if not suspended() and ROOTS:
        p = FDPATH.get(fd)
        if p is not None:
            emit('write', p, {'n': len(data), 'mode': 'os.write'})
    return _REAL['os.write'](fd, data)


def _w_sync():
    if not suspended() and ROOTS:
        emit('sync', ROOTS[0], None)
    return _REAL['os.sync']()


def _w_rmtree(path, *args, **kwargs):
    p = _pathstr(path)
    if p is not None and not suspended() and _root_of(p) is not None:
        emit('rmtree', p, None)
        with passthrough():
            return _REAL['shutil.rmtree'](path, *args, **kwargs)
    return _REAL['shutil.rmtree'](path, *args, **kwargs)


# ------------------------------------------------------------------------------------ SQL events
def _sql_before_execute(conn, cursor, statement, parameters, context, executemany):
    db = conn.engine.url.database
    if db is None or suspended():
        return
    verb = statement.lstrip().split(None, 1)[0].upper() if statement.strip() else '?'
    emit(f'sql:{verb}', os.path.abspath(db), {'sql': statement[:60].replace('\n', ' '), 'many': bool(executemany)})


def _sql_commit(conn):
    db = conn.engine.url.database
    if db is not None and not suspended():
        emit('sql:commit', os.path.abspath(db), None)


def _sql_rollback(conn):
    db = conn.engine.url.database
    if db is not None and not suspended():
        emit('sql:rollback-call', os.path.abspath(db), None)


# ------------------------------------------------------------------------------------ audit guard
_AUDIT_NAMES = {'open': 'open', 'os.rename': 'os.rename', 'os.remove': 'os.remove', 'os.link': 'os.link',
                'os.mkdir': 'os.mkdir', 'os.rmdir': 'os.rmdir', 'os.truncate': 'os.truncate'}


def _expect(name):
    """An interposed call announces that one audit event of the matching family will follow."""
    fam = {'os.replace': 'os.rename', 'os.unlink': 'os.remove', 'os.makedirs': None}.get(name, name)
    if fam:
        _EXPECT[fam] = _EXPECT.get(fam, 0) + 1


def _audit(event, args):
    if not _AUDIT_ON or event not in _AUDIT_NAMES or not ROOTS:
        return
    if getattr(_STATE, 'suspend', 0) > 0:
        return
    try:
        target = args[0]
        if isinstance(target, int) or target is None:
            return
        p = os.fspath(target)
        if isinstance(p, bytes):
            p = os.fsdecode(p)
    except TypeError:
        return
    paths = [p]
    if event in ('os.rename', 'os.link') and len(args) > 1 and args[1] is not None and not isinstance(args[1], int):
        try:
            paths.append(os.fsdecode(os.fspath(args[1])))
        except TypeError:
            pass
    if not any(_root_of(os.path.abspath(q)) for q in paths):
        return
    if event == 'open' and (p.endswith('packs.idx') or 'packs.idx-' in p):
        return  # sqlite3.connect / the C library: observed through the SQL events instead
    AUDIT_COUNTS[event] = AUDIT_COUNTS.get(event, 0) + 1
    if _EXPECT.get(event, 0) > 0:
        _EXPECT[event] -= 1
    else:
        if len(BLIND) < 20:
            BLIND.append(f'{event}({os.path.basename(p)})')


_AUDIT_ADDED = False


# ------------------------------------------------------------------------------------ install
def install(roots, plan=None, audit=True, post_sync=None):
    """Start interposing for the given container roots."""
    global INSTALLED, PLAN, _AUDIT_ON, _AUDIT_ADDED, POST_SYNC
    roots = [os.path.realpath(r) for r in ([roots] if isinstance(roots, str) else roots)]
    ROOTS[:] = roots
    PLAN = plan
    POST_SYNC = post_sync
    if INSTALLED:
        _AUDIT_ON = audit
        return
    _REAL.update({
        'open': builtins.open, 'os.open': os.open, 'os.close': os.close, 'os.fsync': os.fsync,
        'os.fdatasync': os.fdatasync, 'fcntl.fcntl': fcntl.fcntl, 'os.rename': os.rename, 'os.replace': os.replace,
        'os.link': os.link, 'os.unlink': os.unlink, 'os.remove': os.remove, 'os.mkdir': os.mkdir,
        'os.makedirs': os.makedirs, 'os.rmdir': os.rmdir, 'os.truncate': os.truncate, 'os.stat': os.stat,
        'os.lstat': os.lstat, 'os.listdir': os.listdir, 'os.scandir': os.scandir, 'shutil.rmtree': shutil.rmtree,
        'os.readlink': os.readlink, 'os.write': os.write, 'os.sync': os.sync,
    })
    builtins.open = _w_open
    io.open = _w_open
    os.open = _w_os_open
    os.close = _w_os_close
    os.write = _w_os_write
    os.sync = _w_sync
    os.fsync = _fd_call('os.fsync', 'fsync')
    os.fdatasync = _fd_call('os.fdatasync', 'fdatasync')
    fcntl.fcntl = _fd_call('fcntl.fcntl', 'fcntl')
    os.rename = _path_call('os.rename', 'rename', dst=True)
    os.replace = _path_call('os.replace', 'replace', dst=True)
    os.link = _path_call('os.link', 'link', dst=True)
    os.unlink = _path_call('os.unlink', 'unlink')
    os.remove = _path_call('os.remove', 'remove')
    os.mkdir = _path_call('os.mkdir', 'mkdir')
    os.rmdir = _path_call('os.rmdir', 'rmdir')
    os.truncate = _path_call('os.truncate', 'os.truncate')
    os.stat = _path_call('os.stat', 'stat')
    os.lstat = _path_call('os.lstat', 'lstat')
    os.listdir = _path_call('os.listdir', 'listdir')
    os.scandir = _path_call('os.scandir', 'scandir')
    shutil.rmtree = _w_rmtree
    try:
        from sqlalchemy import event  # pylint: disable=import-outside-toplevel
        from sqlalchemy.engine import Engine  # pylint: disable=import-outside-toplevel

        event.listen(Engine, 'before_cursor_execute', _sql_before_execute)
        event.listen(Engine, 'commit', _sql_commit)
        event.listen(Engine, 'rollback', _sql_rollback)
    except ImportError:
        pass
    if audit and not _AUDIT_ADDED:
        sys.addaudithook(_audit)
        _AUDIT_ADDED = True
    _AUDIT_ON = audit
    INSTALLED = True


def set_plan(plan):
    global PLAN
    PLAN = plan


def set_roots(roots):
    ROOTS[:] = [os.path.realpath(r) for r in roots]


def uninstall():
    """Stop producing events (the wrappers stay in place but pass everything through)."""
    global PLAN, _AUDIT_ON
    ROOTS[:] = []
    PLAN = None
    _AUDIT_ON = False


def real_open(*args, **kwargs):
    return (_REAL.get('open') or builtins.open)(*args, **kwargs)


# ------------------------------------------------------------------------------------ plans
class Recorder:
    """Plan: just log."""

    def __init__(self):
        self.events: list[Event] = []

    def __call__(self, ev):
        self.events.append(ev)

    def mutating(self):
        return [e for e in self.events if e.mutating]


class CrashAt:
    """Plan: kill the process (no cleanup, user-space buffers lost) right before mutating event k."""

    def __init__(self, k, exit_code=77, recorder=None, on_crash=None):
        self.k, self.exit_code, self.count, self.recorder, self.on_crash = k, exit_code, 0, recorder, on_crash

    def __call__(self, ev):
        if self.recorder is not None:
            self.recorder(ev)
        if not ev.mutating:
            return
        if self.count == self.k:
            if self.on_crash is not None:
                self.on_crash(ev)
            os._exit(self.exit_code)
        self.count += 1


class InjectedIOError(OSError):
    pass


def make_fault(ev, errname='EIO'):
    if ev.kind.startswith('sql:'):
        import sqlite3  # pylint: disable=import-outside-toplevel

        from sqlalchemy.exc import OperationalError  # pylint: disable=import-outside-toplevel

        return OperationalError(ev.detail.get('sql', ev.kind), None, sqlite3.OperationalError('disk I/O error (injected)'))
    code = getattr(errno, errname)
    if errname == 'EACCES':
        return PermissionError(code, 'injected fault', ev.path)
    if errname == 'EEXIST':
        return FileExistsError(code, 'injected fault', ev.path)
    return InjectedIOError(code, f'injected {errname}', ev.path)


class FaultAt:
    """Plan: raise an injected error instead of performing event k (counted over `eligible` events)."""

    def __init__(self, k, errname='EIO', eligible=None, recorder=None):
        self.k, self.errname, self.count, self.recorder = k, errname, 0, recorder
        self.eligible = eligible or (lambda ev: True)
        self.fired = None

    def __call__(self, ev):
        if self.recorder is not None:
            self.recorder(ev)
        if not self.eligible(ev):
            return
        if self.count == self.k and self.fired is None:
            self.fired = ev
            self.count += 1
            raise make_fault(ev, self.errname)
        self.count += 1


class ProbeAt:
    """Plan: run ``fn(ev)`` inline (another actor's whole operation) right before event k (all events counted)."""

    def __init__(self, k, fn, eligible=None, recorder=None):
        self.k, self.fn, self.count, self.recorder = k, fn, 0, recorder
        self.eligible = eligible or (lambda ev: True)
        self.fired = None

    def __call__(self, ev):
        if self.recorder is not None:
            self.recorder(ev)
        if ev.actor != 'main' or not self.eligible(ev):
            return
        if self.count == self.k and self.fired is None:
            self.fired = ev
            self.count += 1
            old = get_actor()
            set_actor('probe')
            _STATE.suspend -= 1  # the probe's I/O *is* interposed (recorded), it just cannot re-trigger the probe
            try:
                self.fn(ev)
            finally:
                _STATE.suspend += 1
                set_actor(old)
            return
        self.count += 1
