"""Reference model (key -> bytes), operation interpreter and view comparer.

``World`` owns one container folder, any number of handles on it, and the model.  ``apply(op)``
executes a generated operation through the real public API *and* on the model; everything the
API hands back (keys, mappings, deleted lists) is compared on the spot.  ``check_views`` compares
every public read view of one handle with the model.  Problems are appended to
``world.problems`` as ``(mechanism, message)``; nothing here decides a verdict.
"""
from __future__ import annotations

import hashlib
import io
import os
import random
from collections import Counter

from disk_objectstore import CompressMode, Container
from disk_objectstore.exceptions import NotExistent
from disk_objectstore.utils import LazyOpener

from . import gen, rawread

CHUNKS = [1, 7, 4096, 65536, 65537, 524288, 524289, -1]


class Dribble:
    """A readable/seekable stream that returns fewer bytes than asked (never zero before EOF)."""

    mode = 'rb'

    def __init__(self, data: bytes, seed: int = 0):
        self._data = data
        self._pos = 0
        self._rnd = random.Random(seed)

    def read(self, size=-1):
        if size is None or size < 0:
            size = len(self._data) - self._pos
        if size > 1:
            size = self._rnd.randint(max(1, size // 3), size)
        out = self._data[self._pos:self._pos + size]
        self._pos += len(out)
        return out

    def seek(self, target, whence=0):
        if whence == 1:
            target += self._pos
        elif whence == 2:
            target += len(self._data)
        self._pos = max(0, target)
        return self._pos

    def tell(self):
        return self._pos

    @staticmethod
    def seekable():
        return True

    @staticmethod
    def readable():
        return True

    closed = False


class Recorder:
    """Progress callback that records the protocol (init/update/close)."""

    def __init__(self):
        self.calls = []

    def __call__(self, action=None, value=None):
        self.calls.append((action, value if not isinstance(value, dict) else dict(value)))


def to_mode(value):
    if isinstance(value, bool):
        return value
    return CompressMode(value)


class World:
    def __init__(self, root: str, cfg: dict, aux: str | None = None):
        self.root = root
        self.cfg = dict(cfg)
        self.aux = aux or (root.rstrip('/') + '.aux')
        os.makedirs(self.aux, exist_ok=True)
        self.handles: dict[str, Container] = {}
        cont = Container(root)
        cont.init_container(clear=False, **cfg)
        self.handles['main'] = cont
        self.hash_type = cfg['hash_type']
        self.model: dict[str, bytes] = {}
        self.problems: list[tuple[str, str]] = []
        self.counters: Counter = Counter()
        self._nfile = 0
        self._nsrc = 0
        self.ever_deleted: dict[str, bytes] = {}
        self.last_info: dict = {}

    @classmethod
    def attach(cls, root: str, cfg: dict, model: dict | None = None, aux: str | None = None) -> 'World':
        """A world over an already initialised container folder (crash / fault / schedule labs)."""
        self = cls.__new__(cls)
        self.root = root
        self.cfg = dict(cfg)
        self.aux = aux or (root.rstrip('/') + '.aux')
        os.makedirs(self.aux, exist_ok=True)
        self.handles = {}
        self.hash_type = cfg['hash_type']
        self.model = dict(model or {})
        self.problems = []
        self.counters = Counter()
        self._nfile = len(os.listdir(self.aux)) + 100
        self._nsrc = len(os.listdir(self.aux)) + 100
        self.ever_deleted = {}
        self.last_info = {}
        return self

    def op_contents(self, op: dict) -> dict[str, bytes]:
        """key -> bytes of every content an operation may add to this container."""
        specs = []
        if 'c' in op:
            specs.append(op['c'])
        specs += op.get('cs', []) if op['op'] != 'delete' else []
        if op['op'] == 'import':
            specs += op.get('src_cs', [])
        return {self.key(s): gen.content(s) for s in specs}

    # -- basics ---------------------------------------------------------------------------
    def H(self, data: bytes, hash_type: str | None = None) -> str:  # noqa: N802
        return hashlib.new(hash_type or self.hash_type, data).hexdigest()

    def key(self, spec) -> str:
        return self.H(gen.content(spec))

    def handle(self, name: str = 'main') -> Container:
        if name not in self.handles:
            self.handles[name] = Container(self.root)
        return self.handles[name]

    def problem(self, mechanism: str, msg: str):
        self.problems.append((mechanism, msg))

    def close(self):
        for cont in self.handles.values():
            try:
                cont.close()
            except Exception:  # noqa: BLE001
                pass
        self.handles = {}

    def _file_for(self, data: bytes) -> str:
        self._nfile += 1
        path = os.path.join(self.aux, f'in{self._nfile}')
        with open(path, 'wb') as fh:
            fh.write(data)
        return path

    def _expect_keys(self, opname, got, datas, hash_type=None):
        want = [self.H(d, hash_type) for d in datas]
        if list(got) != want:
            self.problem(f'wrong-key:{opname}', f'{opname} returned {got} expected {want}')
        return want

    # -- operations ---------------------------------------------------------------------------
    def apply(self, op: dict):  # noqa: C901  pylint: disable=too-many-branches,too-many-statements
        name = op['op']
        cont = self.handle(op.get('h', 'main'))
        self.counters[f'op:{name}'] += 1
        self.last_info = {}
        if name == 'add_object':
            data = gen.content(op['c'])
            got = cont.add_object(data)
            self._expect_keys(name, [got], [data])
            self.model[self.H(data)] = data
        elif name == 'add_streamed':
            data = gen.content(op['c'])
            kind = op.get('stream', 'bytesio')
            if kind == 'file':
                with open(self._file_for(data), 'rb') as fh:
                    got = cont.add_streamed_object(fh)
            elif kind == 'dribble':
                got = cont.add_streamed_object(Dribble(data, len(data)))
            else:
                got = cont.add_streamed_object(io.BytesIO(data))
            self._expect_keys(name, [got], [data])
            self.model[self.H(data)] = data
        elif name == 'add_objects_to_pack':
            datas = [gen.content(s) for s in op['cs']]
            cb = Recorder() if op.get('callback') else None
            got = cont.add_objects_to_pack(
                datas if op.get('as_list', True) else tuple(datas),
                compress=op.get('compress', False),
                no_holes=op.get('no_holes', False),
                no_holes_read_twice=op.get('read_twice', True),
                callback=cb,
                do_fsync=op.get('do_fsync', True),
            )
            self._expect_keys(name, got, datas)
            for d in datas:
                self.model[self.H(d)] = d
        elif name == 'add_streamed_objects_to_pack':
            datas = [gen.content(s) for s in op['cs']]
            kind = op.get('streams', 'bytesio')
            cb = Recorder() if op.get('callback') else None
            files = []
            if kind == 'lazy':
                from pathlib import Path  # pylint: disable=import-outside-toplevel

                streams = [LazyOpener(Path(self._file_for(d))) for d in datas]
                self.last_info['lazy'] = streams
                open_streams = True
            elif kind == 'file':
                files = [open(self._file_for(d), 'rb') for d in datas]  # pylint: disable=consider-using-with
                streams, open_streams = files, False
            elif kind == 'dribble':
                streams, open_streams = [Dribble(d, len(d)) for d in datas], False
            else:
                streams, open_streams = [io.BytesIO(d) for d in datas], False
            try:
                got = cont.add_streamed_objects_to_pack(
                    streams,
                    compress=op.get('compress', False),
                    open_streams=open_streams,
                    no_holes=op.get('no_holes', False),
                    no_holes_read_twice=op.get('read_twice', True),
                    callback=cb,
                    do_fsync=op.get('do_fsync', True),
                )
            finally:
                for fh in files:
                    fh.close()
            self._expect_keys(name, got, datas)
            for d in datas:
                self.model[self.H(d)] = d
        elif name == 'add_streamed_object_to_pack':
            data = gen.content(op['c'])
            cb = Recorder() if op.get('callback') else None
            stream = Dribble(data, len(data)) if op.get('stream') == 'dribble' else io.BytesIO(data)
            got = cont.add_streamed_object_to_pack(
                stream,
                compress=op.get('compress', False),
                no_holes=op.get('no_holes', False),
                no_holes_read_twice=op.get('read_twice', True),
                callback=cb,
                callback_size_hint=len(data) if cb else 0,
                do_fsync=op.get('do_fsync', True),
            )
            self._expect_keys(name, [got], [data])
            self.model[self.H(data)] = data
        elif name == 'pack_all_loose':
            cb = Recorder() if op.get('callback') else None
            cont.pack_all_loose(
                compress=to_mode(op.get('compress', 'no')),
                validate_objects=op.get('validate', True),
                clean_loose_per_pack=op.get('clpp', False),
                callback=cb,
                do_fsync=op.get('do_fsync', True),
            )
        elif name == 'clean_storage':
            cont.clean_storage(vacuum=op.get('vacuum', False))
        elif name == 'repack':
            cb = Recorder() if op.get('callback') else None
            cont.repack(compress_mode=CompressMode(op.get('mode', 'keep')), callback=cb)
        elif name == 'repack_pack':
            existing = rawread.pack_ids(self.root)
            if existing:
                pack = existing[op.get('pack', 0) % len(existing)]
                cont.repack_pack(str(pack), compress_mode=CompressMode(op.get('mode', 'keep')))
                self.last_info['pack'] = pack
        elif name == 'delete':
            keys = [self.key(s) for s in op.get('cs', [])]
            absent = [self.key(s) for s in op.get('absent', []) if self.key(s) not in self.model]
            req = keys + absent
            want = {k for k in req if k in self.model}
            got = cont.delete_objects(req)
            if sorted(got) != sorted(want) and not getattr(self, 'lenient', False):
                self.problem('delete-return', f'delete_objects({req}) returned {sorted(got)} expected {sorted(want)}')
            for k in want:
                self.ever_deleted[k] = self.model.pop(k)
            self.last_info['deleted'] = want
        elif name == 'loosen':
            k = self.key(op['c'])
            if k in self.model:
                path = cont.loosen_object(k)
                with open(path, 'rb') as fh:
                    if fh.read() != self.model[k]:
                        self.problem('loosen-content', f'loosen_object({k}) produced a wrong loose file')
        elif name == 'seek_read':
            k = self.key(op['c'])
            if k in self.model:
                data = self.model[k]
                with cont.get_object_stream(k) as stream:
                    prog = op.get('prog', 0)
                    if prog == 0:
                        stream.read(max(1, len(data) // 2))
                        stream.seek(0)
                        got = stream.read()
                        want = data
                    elif prog == 1:
                        stream.read(3)
                        stream.seek(-min(2, len(data)), 1) if len(data) else None
                        got = stream.read()
                        want = data[max(0, min(3, len(data)) - min(2, len(data))):]
                    elif prog == 2:
                        stream.seek(0, 2)
                        stream.seek(0)
                        got = stream.read()
                        want = data
                    else:
                        stream.seek(len(data) // 2)
                        got = stream.read(10)
                        want = data[len(data) // 2:len(data) // 2 + 10]
                if got != want:
                    self.problem('seek-read', f'seeking read of {k} (prog {prog}) returned wrong bytes')
        elif name == 'import':
            self._import(cont, op)
        elif name == 'reopen':
            hname = op.get('h', 'main')
            cont.close()
            self.handles[hname] = Container(self.root)
        elif name == 'open_handle':
            hname = op['h']
            if hname in self.handles:
                self.handles[hname].close()
            self.handles[hname] = Container(self.root)
        elif name == 'init_again':
            before = rawread.Snapshot(self.root)
            bad = op.get('bad')
            kwargs = dict(op.get('cfg', self.cfg))
            if bad == 'hash_type':
                kwargs['hash_type'] = 'md5'
            elif bad == 'prefix':
                kwargs['loose_prefix_len'] = -1
            elif bad == 'pack_size':
                kwargs['pack_size_target'] = 0
            try:
                # with invalid parameters even clear=True must be refused before anything is touched
                Container(self.root).init_container(clear=bool(bad), **kwargs)
                self.problem('init-not-refused', f'init_container({"clear=True, invalid " + bad if bad else ""}) on an initialised folder did not raise')
            except (FileExistsError, ValueError) as exc:
                if bool(bad) != isinstance(exc, ValueError):
                    self.problem('init-refusal-kind', f'init_container(bad={bad}) raised {exc!r}')
            self.counters['refused-init:' + (bad or 'exists')] += 1
            after = rawread.Snapshot(self.root)
            if (before.rows, sorted(before.loose), before.packs, before.config) != (
                after.rows, sorted(after.loose), after.packs, after.config
            ):
                self.problem('init-changed', 'refused init_container() changed the container')
        elif name == 'damage_loose_readd':
            self._damage_readd(cont, op)
        elif name == 'damage_loose':  # damage the loose copy in place (the model keeps the right bytes)
            k = self.key(op['c'])
            path = rawread.loose_keys(self.root, self.cfg['loose_prefix_len'])[k]
            with open(path, 'r+b') as fh:
                first = fh.read(1)
                fh.seek(0)
                fh.write(bytes([first[0] ^ 0x55]) if first else b'X')
        else:
            raise AssertionError(f'unknown op {name}')

    def _damage_readd(self, cont, op):
        data = gen.content(op['c'])
        k = self.H(data)
        loose = rawread.loose_keys(self.root, self.cfg['loose_prefix_len'])
        damaged = False
        if k in loose and len(data) > 0 or (k in loose and op['damage'] == 'extend'):
            path = loose[k]
            with open(path, 'rb') as fh:
                cur = bytearray(fh.read())
            kind = op['damage']
            if kind == 'flip' and cur:
                cur[len(cur) // 2] ^= 0x40
            elif kind == 'truncate' and cur:
                cur = cur[:len(cur) // 2]
            elif kind == 'empty' and cur:
                cur = bytearray()
            else:
                cur += b'X'
            with open(path, 'wb') as fh:
                fh.write(cur)
            damaged = True
            self.counters['loose-copy-damaged'] += 1
        if op.get('via') == 'add_streamed':
            got = cont.add_streamed_object(io.BytesIO(data))
        else:
            got = cont.add_object(data)
        self._expect_keys('readd', [got], [data])
        self.model[k] = data
        if damaged:
            loose = rawread.loose_keys(self.root, self.cfg['loose_prefix_len'])
            now = None
            if k in loose:
                with open(loose[k], 'rb') as fh:
                    now = fh.read()
            if now != data:
                self.problem('damaged-loose-not-repaired',
                             f're-adding content whose loose copy was damaged ({op["damage"]}) left a wrong loose copy')

    def _import(self, cont, op):
        self._nsrc += 1
        src_root = os.path.join(self.aux, f'src{self._nsrc}')
        src = Container(src_root)
        src.init_container(clear=False, **op['src_cfg'])
        src_hash = op['src_cfg']['hash_type']
        src_model = {}
        datas = [gen.content(s) for s in op['src_cs']]
        mode = op.get('src_pack')
        if mode in ('direct', 'direct_z'):
            src.add_objects_to_pack(datas, compress=mode == 'direct_z')
        else:
            for d in datas:
                src.add_object(d)
            if mode in ('no', 'yes'):
                src.pack_all_loose(compress=mode == 'yes')
                if op.get('src_clean', True):
                    src.clean_storage()
        for d in datas:
            src_model[self.H(d, src_hash)] = d
        req = [self.H(gen.content(s), src_hash) for s in op.get('req', [])]
        req += [self.H(gen.content(s), src_hash) for s in op.get('absent', [])]
        if op.get('repeat') and req:
            req = req + req[:1]
        kind = op.get('iter', 'list')
        keys_arg = {
            'list': lambda: list(req),
            'tuple': lambda: tuple(req),
            'set': lambda: set(req),
            'dictkeys': lambda: dict.fromkeys(req).keys(),
            'generator': lambda: (k for k in req),
            'iter': lambda: iter(list(req)),
        }[kind]()
        cb = Recorder() if op.get('callback') else None
        before = rawread.Snapshot(self.root) if op.get('snap') else None
        mapping = cont.import_objects(
            keys_arg,
            src,
            compress=op.get('compress', False),
            target_memory_bytes=op.get('tmb', 104857600),
            callback=cb,
            do_fsync=op.get('do_fsync', True),
        )
        want_full = {k: self.H(src_model[k]) for k in set(req) if k in src_model}
        for sk, dk in mapping.items():
            if want_full.get(sk) != dk:
                self.problem('import-mapping', f'import mapping sends {sk} to {dk}, expected {want_full.get(sk)}')
        for sk in want_full:
            self.model[want_full[sk]] = src_model[sk]
        self.last_info = {'mapping': mapping, 'want_full': want_full, 'before': before, 'src_model': src_model,
                          'same_hash': src_hash == self.hash_type}
        src.close()

    # -- views ------------------------------------------------------------------------------
    def absent_keys(self, n=3) -> list[str]:
        out = []
        for i in range(n):
            k = self.H(b'never stored %d' % i)
            if k not in self.model:
                out.append(k)
        for k in list(self.model)[:2]:  # near misses sharing the shard prefix
            nm = k[:-1] + ('0' if k[-1] != '0' else '1')
            if nm not in self.model:
                out.append(nm)
        return out

    def check_views(self, hname: str = 'main', cont: Container | None = None, chunked: int = 4,
                    tag: str = '') -> None:  # noqa: C901
        """Compare every public read view of one handle with the model."""
        cont = cont or self.handle(hname)
        model = self.model
        keys = list(model)
        absent = self.absent_keys()
        mech = 'view' + (f':{tag}' if tag else '')
        self.counters['view-checks'] += 1

        def bad(view, msg):
            self.problem(f'{mech}:{view}', msg)

        try:
            ask = keys + absent
            got = cont.has_objects(ask)
            want = [True] * len(keys) + [False] * len(absent)
            if got != want:
                wrong = [k for k, g, w in zip(ask, got, want) if g != w]
                bad('has_objects', f'has_objects wrong for {wrong[:4]} (model has {len(keys)} keys)')
            for k in keys[:3]:
                if not cont.has_object(k):
                    bad('has_object', f'has_object({k}) is False')
            for k in absent[:2]:
                if cont.has_object(k):
                    bad('has_object', f'has_object({k}) True for an absent key')

            for k in keys:
                data = cont.get_object_content(k)
                if data != model[k]:
                    bad('get_object_content', f'get_object_content({k}) returned {len(data)} bytes != stored {len(model[k])} bytes')
            res = cont.get_objects_content(ask, skip_if_missing=True)
            if res != model:
                bad('get_objects_content', f'get_objects_content(skip=True) differs: keys {sorted(set(res) ^ set(model))[:4]} or contents')
            res = cont.get_objects_content(ask, skip_if_missing=False)
            want_d = dict(model)
            want_d.update({k: None for k in absent})
            if res != want_d:
                bad('get_objects_content', 'get_objects_content(skip=False) differs from model')

            rnd = random.Random(len(keys))
            for k in rnd.sample(keys, min(chunked, len(keys))):
                size = rnd.choice(CHUNKS)
                if 0 < size < 4096 and len(model[k]) > 20000:
                    size = 65537  # keep the number of read() calls bounded for big objects
                parts = []
                with cont.get_object_stream(k) as stream:
                    while True:
                        part = stream.read(size)
                        if not part:
                            break
                        parts.append(part)
                        if size > 0 and len(part) > size:
                            bad('get_object_stream', f'read({size}) returned {len(part)} bytes')
                if b''.join(parts) != model[k]:
                    bad('get_object_stream', f'chunked read (chunk {size}) of {k} differs from stored bytes')

            seen = Counter()
            with cont.get_objects_stream_and_meta(ask, skip_if_missing=False) as triplets:
                for k, stream, meta in triplets:
                    seen[k] += 1
                    if k in model:
                        if stream is None:
                            bad('get_objects_stream_and_meta', f'{k} reported missing')
                            continue
                        data = stream.read()
                        if data != model[k]:
                            bad('get_objects_stream_and_meta', f'stream of {k} differs from stored bytes')
                        if meta.size != len(model[k]):
                            bad('meta.size', f'meta.size {meta.size} != {len(model[k])} for {k}')
                    elif stream is not None:
                        bad('get_objects_stream_and_meta', f'absent key {k} has a stream')
            if set(seen) != set(ask) or any(v != 1 for v in seen.values()):
                bad('get_objects_stream_and_meta', 'bulk stream did not report each distinct key exactly once')

            metas = dict(cont.get_objects_meta(ask, skip_if_missing=True))
            if set(metas) != set(model):
                bad('get_objects_meta', f'get_objects_meta keys differ: {sorted(set(metas) ^ set(model))[:4]}')
            for k, meta in metas.items():
                if k in model and meta.size != len(model[k]):
                    bad('meta.size', f'get_objects_meta size {meta.size} != {len(model[k])} for {k}')
            for k in keys[:3]:
                if cont.get_object_meta(k).size != len(model[k]):
                    bad('meta.size', f'get_object_meta({k}).size wrong')
            for k in absent[:2]:
                for fn in (cont.get_object_content, cont.get_object_meta):
                    try:
                        fn(k)
                        bad('NotExistent', f'{fn.__name__}({k}) did not raise NotExistent')
                    except NotExistent:
                        pass
                try:
                    with cont.get_object_stream(k):
                        bad('NotExistent', f'get_object_stream({k}) did not raise NotExistent')
                except NotExistent:
                    pass

            listed = list(cont.list_all_objects())
            if sorted(listed) != sorted(model):
                dup = [k for k, v in Counter(listed).items() if v > 1]
                bad('list_all_objects', f'listing differs: missing {sorted(set(model) - set(listed))[:3]} '
                                         f'extra {sorted(set(listed) - set(model))[:3]} duplicates {dup[:3]}')

            snap = rawread.Snapshot(self.root)
            cnt = cont.count_objects()
            union = set(snap.loose) | {r.hashkey for r in snap.rows}
            if cnt.packed != len(snap.rows) or cnt.loose != len(snap.loose):
                bad('count_objects', f'count_objects {cnt} but raw rows={len(snap.rows)} loose={len(snap.loose)}')
            if len(union) != len(model):
                bad('count_objects', f'|loose U packed| = {len(union)} but model has {len(model)} keys')
            if cnt.pack_files != len([n for n in snap.packs if n.isdigit()]):
                bad('count_objects', f'pack_files {cnt.pack_files} != files in packs/')
        except Exception as exc:  # noqa: BLE001
            import traceback  # pylint: disable=import-outside-toplevel

            bad('exception', f'view raised {exc!r} :: {traceback.format_exc()[-600:]}')
