"""C08: sequential histories over several handles on one folder; a long-open handle must see everything acknowledged."""
from __future__ import annotations

import itertools
import os
import random
from collections import Counter

from . import common, gen

STEPS = ['addA', 'addP', 'packF', 'packT', 'clean']
VIEWS = ['has_objects', 'get_object_content', 'get_objects_content', 'get_objects_meta', 'list_all_objects']
PINS = VIEWS + ['count_objects']


def skeletons(maxlen):
    for n in range(1, maxlen + 1):
        yield from itertools.product(STEPS, repeat=n)


def enumerate_histories(maxlen):
    """(skeleton, pin position, pin kind): one earlier query on observer A that may pin its index snapshot."""
    out = []
    for sk in skeletons(maxlen):
        if not any(s.startswith('add') for s in sk):
            continue
        for pos in range(len(sk)):  # the pin happens right before step `pos`
            for kind in PINS:
                out.append({'skeleton': list(sk), 'pin_pos': pos, 'pin_kind': kind})
    return out


class Hist:
    def __init__(self, root, seed=0, pack_target=4 * 1024 ** 3, empty_first=False):
        from disk_objectstore import Container  # pylint: disable=import-outside-toplevel

        self.Container = Container
        self.root = root
        self.empty_pending = empty_first  # the next new content is the EMPTY object (it adds zero bytes to a pack)
        first = Container(root)
        first.init_container(clear=True, pack_size_target=pack_target)
        first.close()
        self.handles = {}
        self.model = {}
        self.n = seed * 1000
        self.problems = []
        self.counters = Counter()

    def h(self, name):
        if name not in self.handles:
            self.handles[name] = self.Container(self.root)
        return self.handles[name]

    def close(self):
        for c in self.handles.values():
            c.close()

    def new_content(self):
        if self.empty_pending:
            self.empty_pending = False
            return b''
        self.n += 1
        return gen.content(['text', 20 + self.n % 50, self.n])

    def query(self, name, kind, trace):
        """One view on one handle, compared with the acknowledged model. Returns nothing; records problems."""
        cont = self.h(name)
        keys = list(self.model)
        self.counters[f'view:{kind}'] += 1
        bad = None
        try:
            if kind == 'has_objects':
                got = cont.has_objects(keys)
                missing = [k for k, g in zip(keys, got) if not g]
                if missing:
                    bad = f'has_objects reports {len(missing)} acknowledged object(s) missing'
            elif kind == 'get_object_content':
                for k in keys:
                    if cont.get_object_content(k) != self.model[k]:
                        bad = 'get_object_content returned wrong bytes'
            elif kind == 'get_objects_content':
                skip = (self.n + len(keys)) % 2 == 0  # both ways of asking: skip missing keys, or report them as None
                got = cont.get_objects_content(keys, skip_if_missing=skip)
                if got != self.model:
                    lost = [k for k in keys if got.get(k) is None]
                    bad = f'get_objects_content(skip_if_missing={skip}) misses/mis-reads {len(lost) or len(set(self.model) ^ set(got))} acknowledged object(s)'
            elif kind == 'get_objects_meta':
                skip = (self.n + len(keys)) % 2 == 1
                pairs = list(cont.get_objects_meta(keys, skip_if_missing=skip))
                got = dict(pairs)
                if (set(got) != set(keys) or len(pairs) != len(got) or any(m.type.value == 'missing' for m in got.values())
                        or any(got[k].size != len(self.model[k]) for k in got)):
                    bad = (f'get_objects_meta(skip_if_missing={skip}) misses {len(set(keys) - set(got))} acknowledged object(s), reports one '
                           f'as missing / twice, or reports a wrong size')
            elif kind == 'list_all_objects':
                got = set(cont.list_all_objects())
                missing = set(keys) - got
                if missing:
                    bad = f'list_all_objects omits {len(missing)} acknowledged object(s)'
            elif kind == 'count_objects':
                cont.count_objects()  # only used as a pinning query; its value is not judged by C08
        except Exception as exc:  # noqa: BLE001
            bad = f'{kind} raised {exc!r}'
        if bad:
            self.problems.append((f'stale-view:{kind}', f'handle {name} after {trace}: {bad}'))

    def step(self, st):
        if st == 'addA':
            c = self.new_content()
            self.model[self.h('A').add_object(c)] = c
        elif st == 'addP':
            c = self.new_content()
            self.model[self.h('P').add_object(c)] = c
        elif st == 'addB':
            c = self.new_content()
            self.model[self.h('B').add_object(c)] = c
        elif st == 'packF':
            self.h('P').pack_all_loose(clean_loose_per_pack=False)
        elif st == 'packT':
            self.h('P').pack_all_loose(clean_loose_per_pack=True)
        elif st == 'packZ':
            self.h('P').pack_all_loose(compress=True, clean_loose_per_pack=True)
        elif st == 'clean':
            self.h('P').clean_storage()
        elif st == 'direct':
            cs = [self.new_content(), self.new_content()]
            for k, c in zip(self.h('P').add_objects_to_pack(cs), cs):
                self.model[k] = c
        else:
            raise ValueError(st)
        self.counters[f'step:{st}'] += 1


def run_enumerated(case):
    """Worker: a slice of the enumerated histories."""
    base = common.mkscratch('mh-')
    counters, vios, seen = Counter(), [], set()
    sample = None
    try:
        for i, hist in enumerate(case['histories']):
            root = os.path.join(base, f'c{i}')
            H = Hist(root, seed=i, pack_target=hist.get('pack_target', 4 * 1024 ** 3), empty_first=hist.get('empty_first', False))  # noqa: N806
            try:
                trace = []
                if hist.get('empty_first'):
                    counters['histories-adding-the-empty-object'] += 1
                if hist.get('pack_target', 4 * 1024 ** 3) < 10 ** 6:
                    counters['histories-with-several-packs'] += 1
                for pos, st in enumerate(hist['skeleton']):
                    if pos == hist['pin_pos']:
                        H.query('A', hist['pin_kind'], trace + ['<pin>'])
                        trace.append(f'A.{hist["pin_kind"]}')
                    H.step(st)
                    trace.append(st)
                    for view in VIEWS:  # second observer, long-open, pinned again by each of its own checks
                        H.query('B', view, trace)
                for view in VIEWS:
                    H.query('A', view, trace)
                counters.update(H.counters)
                counters['histories'] += 1
                seen.add((tuple(hist['skeleton']), hist['pin_pos'], hist['pin_kind'], hist.get('pack_target'), hist.get('empty_first')))
                for mech, msg in H.problems[:2]:
                    vios.append(common.violation(mech, msg, {'history': hist}))
                if sample is None and len(hist['skeleton']) >= 3:
                    sample = {'history': trace, 'observers': ['A (pinned once, checked at the end)', 'B (checked after every step)']}
            finally:
                H.close()
                common.rmtree(root)
            if len(vios) >= 8:
                break
        res = common.case_result(sig='enum', nontrivial=True, counters=counters, violations=vios, sample=sample)
        res['distinct'] = len(seen)
        res['evaluations'] = counters['histories']
        return res
    finally:
        common.rmtree(base)


def random_history(rnd):
    handles = ['A', 'B', 'P'] + (['C'] if rnd.random() < 0.4 else [])
    steps = []
    for _ in range(rnd.randint(8, 30)):
        x = rnd.random()
        if x < 0.35:
            steps.append(['step', rnd.choice(['addA', 'addB', 'addP'])])
        elif x < 0.6:
            steps.append(['step', rnd.choice(['packF', 'packT', 'packZ', 'clean', 'clean', 'direct'])])
        else:
            steps.append(['query', rnd.choice(handles), rnd.choice(PINS)])
    return steps


def run_random(case):
    rnd = random.Random(f'mh-{case["seed"]}')
    base = common.mkscratch('mh-')
    counters, vios, seen = Counter(), [], set()
    sample = None
    try:
        for i in range(case['n']):
            steps = case.get('explicit') or random_history(rnd)
            conf = case.get('conf') or {'pack_target': rnd.choice([60, 300, 4 * 1024 ** 3]), 'empty_first': rnd.random() < 0.3}
            H = Hist(os.path.join(base, f'c{i}'), seed=i, **conf)  # noqa: N806
            try:
                trace = []
                for st in steps:
                    if st[0] == 'step':
                        H.step(st[1])
                        trace.append(st[1])
                    else:
                        H.query(st[1] if st[1] != 'C' else 'C', st[2], trace)
                        trace.append(f'{st[1]}.{st[2]}')
                for name in ('A', 'B'):
                    for view in VIEWS:
                        H.query(name, view, trace)
                counters.update(H.counters)
                counters['histories'] += 1
                seen.add(tuple(map(tuple, steps)))
                for mech, msg in H.problems[:2]:
                    vios.append(common.violation(mech, msg, {'explicit': steps, 'conf': conf}))
                if sample is None:
                    sample = {'history': trace}
            finally:
                H.close()
                common.rmtree(os.path.join(base, f'c{i}'))
            if len(vios) >= 8 or case.get('explicit'):
                break
        res = common.case_result(sig=f'rand{case["seed"]}', nontrivial=True, counters=counters, violations=vios, sample=sample)
        res['distinct'] = len(seen)
        res['evaluations'] = counters['histories']
        return res
    finally:
        common.rmtree(base)
