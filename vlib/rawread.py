"""Raw reader: looks at a container folder with sqlite3 + byte slices + zlib only.

Nothing from ``disk_objectstore`` is imported here; this is the referee for *where* bytes
live and the implementation of the documentation's "recover without the library" promise.
"""
from __future__ import annotations

import hashlib
import json
import os
import sqlite3
import zlib
from collections import namedtuple

Row = namedtuple('Row', 'id hashkey pack_id offset length compressed size')


def read_config(root: str) -> dict:
    with open(os.path.join(root, 'config.json'), encoding='utf8') as fh:
        return json.load(fh)


def index_rows(root: str, immutable: bool = False, recover: bool = False) -> list[Row]:
    """All rows of db_object (a fresh read-only connection: sees everything committed).

    ``recover=True`` opens read-write, so that a WAL left behind by a killed process is recovered exactly
    as the next real client would recover it (post-mortem use).
    """
    path = os.path.join(root, 'packs.idx')
    uri = f'file:{path}?mode={"rw" if recover else "ro"}' + ('&immutable=1' if immutable else '')
    con = sqlite3.connect(uri, uri=True, timeout=30)
    try:
        cur = con.execute('SELECT id, hashkey, pack_id, offset, length, compressed, size FROM db_object ORDER BY id')
        return [Row(*r) for r in cur.fetchall()]
    finally:
        con.close()


def loose_keys(root: str, prefix_len: int | None = None) -> dict[str, str]:
    """Map key -> path of every file under loose/ (key = shard dir name + file name)."""
    if prefix_len is None:
        prefix_len = read_config(root)['loose_prefix_len']
    out = {}
    base = os.path.join(root, 'loose')
    for dirpath, _dirs, files in os.walk(base):
        rel = os.path.relpath(dirpath, base)
        for name in files:
            key = name if rel == '.' else rel.replace(os.sep, '') + name
            out[key] = os.path.join(dirpath, name)
    return out


def pack_files(root: str) -> dict[str, int]:
    """Map file name under packs/ -> size (includes lock files and the -1 repack pack)."""
    out = {}
    base = os.path.join(root, 'packs')
    for name in os.listdir(base):
        path = os.path.join(base, name)
        if os.path.isfile(path):
            out[name] = os.path.getsize(path)
    return out


def pack_ids(root: str) -> list[int]:
    return sorted(int(n) for n in pack_files(root) if n.isdigit())


def read_range(root: str, pack_id, offset: int, length: int) -> bytes | None:
    path = os.path.join(root, 'packs', str(pack_id))
    try:
        with open(path, 'rb') as fh:
            fh.seek(offset)
            return fh.read(length)
    except (FileNotFoundError, OSError, ValueError):
        return None


def inflate_exact(raw: bytes):
    """Inflate ``raw``; return (bytes | None, problem | None). The range must be exactly one zlib stream."""
    dec = zlib.decompressobj()
    try:
        data = dec.decompress(raw)
        data += dec.flush()
    except zlib.error as exc:
        return None, f'zlib error: {exc}'
    if not dec.eof:
        return None, 'zlib stream not at eof inside the recorded range'
    if dec.unused_data:
        return None, f'{len(dec.unused_data)} unused bytes after the zlib stream inside the recorded range'
    return data, None


def object_from_row(root: str, row: Row):
    """Return (bytes | None, problem | None) for an index row using only slice + zlib."""
    if row.offset < 0 or row.length < 0:
        return None, f'negative offset/length ({row.offset},{row.length})'
    raw = read_range(root, row.pack_id, row.offset, row.length)
    if raw is None:
        return None, f'pack file packs/{row.pack_id} missing/unreadable'
    if len(raw) != row.length:
        return None, f'range [{row.offset},{row.offset + row.length}) not inside packs/{row.pack_id} (got {len(raw)} bytes)'
    if row.compressed:
        return inflate_exact(raw)
    return raw, None


def hexdigest(hash_type: str, data: bytes) -> str:
    return hashlib.new(hash_type, data).hexdigest()


class Snapshot:
    """Everything the raw reader can see of a container at one instant."""

    def __init__(self, root: str, recover: bool = False):
        self.root = root
        self.config = read_config(root)
        self.hash_type = self.config['hash_type']
        self.rows = index_rows(root, recover=recover)
        self.loose = loose_keys(root, self.config['loose_prefix_len'])
        self.packs = pack_files(root)

    def rows_by_key(self) -> dict[str, list[Row]]:
        out: dict[str, list[Row]] = {}
        for row in self.rows:
            out.setdefault(row.hashkey, []).append(row)
        return out

    def visible_keys(self) -> set[str]:
        return set(self.loose) | {r.hashkey for r in self.rows}

    def read_loose(self, key: str) -> bytes | None:
        try:
            with open(self.loose[key], 'rb') as fh:
                return fh.read()
        except (KeyError, OSError):
            return None

    def read_key(self, key: str):
        """Return (bytes|None, problem|None): index first, then loose (the library's lookup order)."""
        rows = [r for r in self.rows if r.hashkey == key]
        if rows:
            return object_from_row(self.root, rows[0])
        if key in self.loose:
            data = self.read_loose(key)
            return data, (None if data is not None else 'loose file unreadable')
        return None, 'absent'

    def consistency_problems(self, check_content: bool = True) -> list[str]:
        """C03: every structural/self-description rule, evaluated with sqlite3/zlib/hashlib only."""
        problems = []
        seen = {}
        per_pack: dict[int, list[Row]] = {}
        for row in self.rows:
            if row.hashkey in seen:
                problems.append(f'key {row.hashkey} indexed twice (ids {seen[row.hashkey]} and {row.id})')
            seen[row.hashkey] = row.id
            per_pack.setdefault(row.pack_id, []).append(row)
            if not row.compressed and row.length != row.size:
                problems.append(f'uncompressed row {row.hashkey}: length {row.length} != size {row.size}')
        for pack_id, rows in per_pack.items():
            size = self.packs.get(str(pack_id))
            if size is None:
                problems.append(f'rows reference missing pack file packs/{pack_id}')
                continue
            rows.sort(key=lambda r: (r.offset, r.length))
            prev_end, prev = 0, None
            for row in rows:
                if row.offset < 0 or row.length < 0 or row.offset + row.length > size:
                    problems.append(
                        f'row {row.hashkey}: range [{row.offset},{row.offset + row.length}) outside packs/{pack_id} (size {size})'
                    )
                if row.length > 0:
                    if row.offset < prev_end:
                        problems.append(f'rows {prev.hashkey} and {row.hashkey} overlap in packs/{pack_id}')
                    if row.offset + row.length > prev_end:
                        prev_end, prev = row.offset + row.length, row
        if check_content:
            for row in self.rows:
                data, prob = object_from_row(self.root, row)
                if prob:
                    problems.append(f'row {row.hashkey}: {prob}')
                    continue
                if len(data) != row.size:
                    problems.append(f'row {row.hashkey}: recorded size {row.size} != actual {len(data)}')
                if hexdigest(self.hash_type, data) != row.hashkey:
                    problems.append(f'row {row.hashkey}: bytes in its range do not hash to its key')
            for key in self.loose:
                data = self.read_loose(key)
                if data is None or hexdigest(self.hash_type, data) != key:
                    problems.append(f'loose file {key} is not named by the digest of its bytes')
        return problems

    def referenced_bytes(self) -> int:
        return sum(r.length for r in self.rows)

    def packfile_bytes(self) -> int:
        return sum(sz for name, sz in self.packs.items() if name.isdigit())
