"""C18 probes: descriptor census inside bulk reads / LazyOpener consumption, long runs, tracemalloc peaks."""
from __future__ import annotations

import io
import os
import tracemalloc
from collections import Counter
from pathlib import Path

from . import census, common, gen


# measured on the unchanged tree: every path peaks below 2.1 MiB and grows by < 0.4 MiB between a 1 MiB and a 32 MiB object
PEAK_LIMIT = 6 * 1024 * 1024
GROWTH_LIMIT = 2 * 1024 * 1024


class ZeroLike:
    """A big deterministic stream generated on the fly (never holds the whole object): 64 KiB blocks, each 3/4 fresh
    pseudo-random bytes and 1/4 filler, so that it deflates to about 3/4 of its size and never repeats."""

    mode = 'rb'
    BLOCK = 65536

    def __init__(self, size, seed=1, constant=False):
        self.size, self.pos, self.seed, self.constant = size, 0, seed, constant
        self._cache = (None, b'')

    def _block(self, i):
        if self.constant:  # deflates to ~0.1 %: the inflated side of a stream decompresser is what must stay bounded
            return b'Z' * self.BLOCK
        if self._cache[0] != i:
            import random  # pylint: disable=import-outside-toplevel

            self._cache = (i, random.Random(self.seed * 1000003 + i).randbytes(49152) + b'A' * 16384)
        return self._cache[1]

    def read(self, n=-1):
        if n is None or n < 0:
            n = self.size - self.pos
        n = min(n, self.size - self.pos)
        out = []
        while n > 0:
            i, off = divmod(self.pos, self.BLOCK)
            piece = self._block(i)[off:off + n]
            out.append(piece)
            self.pos += len(piece)
            n -= len(piece)
        return b''.join(out)

    def seek(self, target, whence=0):
        if whence == 1:
            target += self.pos
        elif whence == 2:
            target += self.size
        self.pos = max(0, min(self.size, target))
        return self.pos

    def tell(self):
        return self.pos

    @staticmethod
    def seekable():
        return True


def probe_cases(ctx):
    sizes = [1 << 20, 8 << 20] if ctx.quick else [1 << 20, 8 << 20, 48 << 20]
    out = [{'kind': 'bulk-read', 'seed': ctx.seed, 'n': 40}, {'kind': 'lazy', 'seed': ctx.seed, 'n': 12},
           {'kind': 'long-run', 'seed': ctx.seed, 'n': ctx.pick(60, 200)}]
    for path in ('add_streamed', 'pack:no', 'pack:yes', 'repack:keep', 'repack:yes', 'repack:no', 'validate', 'read:plain',
                 'read:compressed', 'import:streamed', 'direct:no', 'direct:yes', 'loosen'):
        out.append({'kind': 'memory', 'path': path, 'sizes': sizes})
    for path in ('read:compressed', 'validate', 'repack:no', 'import:streamed', 'loosen', 'pack:yes'):
        out.append({'kind': 'memory', 'path': path, 'sizes': sizes, 'constant': True})  # highly compressible content
    return out


def run_probe(case):
    kind = case['kind']
    base = common.mkscratch('res-')
    try:
        fn = {'bulk-read': _bulk_read, 'lazy': _lazy, 'long-run': _long_run, 'memory': _memory}[kind]
        probs, counters, sample = fn(case, base)
        vios = [common.violation(m, g, {'probe': case}) for m, g in probs[:3]]
        return common.case_result(sig=common.digest(case), nontrivial=True, counters=counters, violations=vios, sample=sample)
    finally:
        common.rmtree(base)


def _container(base, name='c', **cfg):
    from disk_objectstore import Container  # pylint: disable=import-outside-toplevel

    cont = Container(os.path.join(base, name))
    cont.init_container(clear=True, **cfg)
    return cont


def _data_fds(root):
    """Descriptors under the container that are not the index."""
    out = []
    for _fd, path in census.open_under(root):
        if census.classify(root, path) != 'index':
            out.append(os.path.relpath(path, os.path.realpath(root)))
    return out


def _bulk_read(case, base):  # noqa: C901
    import random  # pylint: disable=import-outside-toplevel

    rnd = random.Random(case['seed'])
    cont = _container(base, pack_size_target=3000)
    root = str(cont.get_folder())
    probs, counters = [], Counter()
    contents = [gen.content([rnd.choice(['text', 'rnd', 'zero']), rnd.choice([10, 500, 1500, 70000]), i]) for i in range(case['n'])]
    keys_z = cont.add_objects_to_pack(contents[: case['n'] // 3], compress=True)
    keys_p = cont.add_objects_to_pack(contents[case['n'] // 3: 2 * case['n'] // 3], compress=False)
    keys_l = [cont.add_object(c) for c in contents[2 * case['n'] // 3:]]
    by_key = dict(zip(keys_z + keys_p + keys_l, contents))
    zset = set(keys_z)
    with cont.get_objects_stream_and_meta(keys_z + keys_p + keys_l + ['0' * 64]) as triplets:
        for key, stream, meta in triplets:
            fds = _data_fds(root)
            counters['bulk-read-census-points'] += 1
            if len(fds) > 1:
                probs.append(('census:bulk-read-more-than-one-file', f'{len(fds)} data files open while yielding {key[:10]}: {fds}'))
            data = stream.read(7)
            if key in zset and len(by_key[key]) > 20 and rnd.random() < 0.5:
                stream.seek(-3, 1)  # backwards seek in a compressed object: the loose cache may be opened
                counters['backward-seeks-in-compressed'] += 1
                fds = _data_fds(root)
                if len(fds) > 2:
                    probs.append(('census:bulk-read-more-than-two-files', f'{len(fds)} data files open after a backward seek: {fds}'))
                if len(fds) == 2:
                    counters['loose-cache-open-during-seek'] += 1
                data = data[:-3] + stream.read()
            else:
                data += stream.read()
            if data != by_key[key]:
                probs.append(('census:bulk-read-wrong-bytes', f'bulk read of {key[:10]} returned wrong bytes'))
    fds = _data_fds(root)
    if fds:
        probs.append(('census:bulk-read-left-open', f'data files open after the bulk read finished: {fds}'))
    # abandoned generator: consume two items, leave the context
    with cont.get_objects_stream_and_meta(keys_z + keys_p) as triplets:
        for i, (_k, stream, _m) in enumerate(triplets):
            stream.read(1)
            if i == 1:
                break
        del triplets
    import gc  # pylint: disable=import-outside-toplevel

    gc.collect()
    fds = _data_fds(root)
    counters['abandoned-generator-checks'] += 1
    if fds:
        probs.append(('census:abandoned-generator-left-open', f'data files open after an abandoned bulk read: {fds}'))
    cont.close()
    left = census.open_under(root)
    if left:
        probs.append(('census:open-after-close', f'descriptors after close(): {[p for _f, p in left]}'))
    return probs, counters, {'probe': 'bulk-read', 'objects': len(by_key)}


def _lazy(case, base):
    from disk_objectstore.utils import LazyOpener  # pylint: disable=import-outside-toplevel

    cont = _container(base, pack_size_target=2000)
    srcdir = os.path.join(base, 'inputs')
    os.makedirs(srcdir)
    probs, counters = [], Counter()
    openers = []
    for i in range(case['n']):
        path = os.path.join(srcdir, f'f{i}')
        with open(path, 'wb') as fh:
            fh.write(gen.content(['text', 700 + 300 * i, i]))
        openers.append(LazyOpener(Path(path)))
    seen_max = [0]

    class Spy:
        """What the library reads from while a LazyOpener is entered: census at every read()."""

        def __init__(self, real):
            self._real = real

        def read(self, *a):
            n = len(census.open_under(srcdir))
            counters['lazy-opener-census-points'] += 1
            seen_max[0] = max(seen_max[0], n)
            if n != 1:
                probs.append(('census:lazy-inputs-open-while-consuming', f'{n} LazyOpener inputs open while one is being read'))
            return self._real.read(*a)

        def __getattr__(self, name):
            return getattr(self._real, name)

    class SpyOpener(LazyOpener):
        def __enter__(self):
            return Spy(super().__enter__())

    openers = [SpyOpener(o.path) for o in openers]

    def cb(action, value):
        n = len(census.open_under(srcdir))
        counters['lazy-opener-census-points'] += 1
        if n > 1:
            probs.append(('census:two-lazy-inputs-open', f'{n} LazyOpener inputs open at once'))

    for flags in ({}, {'no_holes': True, 'no_holes_read_twice': True}, {'no_holes': True, 'no_holes_read_twice': False},
                  {'compress': True}):
        cont.add_streamed_objects_to_pack(openers, open_streams=True, callback=cb, **flags)
        n = len(census.open_under(srcdir))
        counters['lazy-opener-census-points'] += 1
        if n:
            probs.append(('census:lazy-input-left-open', f'{n} LazyOpener inputs still open after the call ({flags})'))
    counters['lazy-max-open-seen'] = seen_max[0]
    cont.close()
    return probs, counters, {'probe': 'lazy', 'inputs': case['n'], 'max_open_seen': seen_max[0]}


def _long_run(case, base):
    cont = _container(base, pack_size_target=4000)
    root = str(cont.get_folder())
    probs, counters = [], Counter()
    hist = []
    for i in range(case['n']):
        if i % 3 == 0:
            cont.add_objects_to_pack([gen.content(['rnd', 900, 1000 + i])], compress=bool(i % 2))
        elif i % 3 == 1:
            cont.add_object(gen.content(['text', 1200, 2000 + i]))
            cont.pack_all_loose(compress=bool(i % 2), clean_loose_per_pack=bool(i % 4))
        else:
            cont.add_streamed_object_to_pack(io.BytesIO(gen.content(['zero', 500, i])), no_holes=True)
            cont.clean_storage()
        counters['long-run-calls'] += 1
        fds = census.open_under(root)
        hist.append(len(fds))
        bad = [os.path.relpath(p, os.path.realpath(root)) for _f, p in fds if census.classify(root, p) != 'index']
        if bad:
            probs.append(('census:leak:accumulating', f'after {i + 1} pack-writing calls {len(bad)} non-index descriptors are open: {sorted(set(bad))[:3]}'))
            break
    if hist and hist[-1] > census.MAX_INDEX_FDS_PER_HANDLE:
        probs.append(('census:index-fds-accumulate', f'{hist[-1]} index descriptors after {len(hist)} calls'))
    cont.close()
    left = census.open_under(root)
    if left:
        probs.append(('census:open-after-close', f'descriptors after close(): {sorted({p for _f, p in left})[:4]}'))
    return probs, counters, {'probe': 'long-run', 'calls': len(hist), 'fd_counts_first_last': [hist[0], hist[-1]] if hist else []}


def _peak(fn):
    import gc  # pylint: disable=import-outside-toplevel

    gc.collect()
    tracemalloc.start()
    tracemalloc.reset_peak()
    base = tracemalloc.get_traced_memory()[0]
    try:
        fn()
        peak = tracemalloc.get_traced_memory()[1] - base
    finally:
        tracemalloc.stop()
    return peak


def _memory(case, base):  # noqa: C901
    from disk_objectstore import CompressMode, Container  # pylint: disable=import-outside-toplevel

    path = case['path']
    probs, counters = [], Counter()
    peaks = {}
    for size in case['sizes']:
        cont = _container(base, name=f'c{size}')

        def prep_loose():
            return cont.add_streamed_object(ZeroLike(size, constant=case.get('constant', False)))

        def prep_packed(compress):
            return cont.add_streamed_object_to_pack(ZeroLike(size, constant=case.get('constant', False)), compress=compress)

        if path == 'add_streamed':
            fn = prep_loose
        elif path.startswith('pack:'):
            prep_loose()
            fn = lambda: cont.pack_all_loose(compress=path.endswith('yes'))  # noqa: E731
        elif path.startswith('repack:'):
            prep_packed(path != 'repack:yes')
            mode = {'keep': CompressMode.KEEP, 'yes': CompressMode.YES, 'no': CompressMode.NO}[path.split(':')[1]]
            fn = lambda: cont.repack(compress_mode=mode)  # noqa: E731
        elif path == 'validate':
            prep_packed(True)
            prep_loose() if size < (48 << 20) else None
            fn = lambda: cont.validate()  # noqa: E731
        elif path.startswith('read:'):
            key = prep_packed(path.endswith('compressed'))

            def fn():
                total = 0
                with cont.get_object_stream(key) as stream:
                    while True:
                        chunk = stream.read(65536)
                        if not chunk:
                            break
                        total += len(chunk)
                assert total == size
        elif path == 'import:streamed':
            key = prep_packed(True)
            dst = Container(os.path.join(base, f'dst{size}'))
            dst.init_container(clear=True)
            fn = lambda: dst.import_objects([key], cont, target_memory_bytes=100000)  # noqa: E731
        elif path.startswith('direct:'):
            fn = lambda: prep_packed(path.endswith('yes'))  # noqa: E731
        elif path == 'loosen':
            key = prep_packed(True)
            fn = lambda: cont.loosen_object(key)  # noqa: E731
        else:
            raise ValueError(path)
        peaks[size] = _peak(fn)
        counters['memory-probes'] += 1
        cont.close()
        common.rmtree(os.path.join(base, f'c{size}'))
        common.rmtree(os.path.join(base, f'dst{size}'))
    small, big = min(peaks), max(peaks)
    if peaks[big] > PEAK_LIMIT:
        probs.append((f'memory:peak:{path}', f'{path}{" (highly compressible content)" if case.get("constant") else ""}: tracemalloc peak {peaks[big]} bytes for a {big >> 20} MiB object (> {PEAK_LIMIT >> 20} MiB)'))
    if peaks[big] - peaks[small] > GROWTH_LIMIT:
        probs.append((f'memory:growth:{path}', f'{path}{" (highly compressible content)" if case.get("constant") else ""}: peak grows from {peaks[small]} ({small >> 20} MiB object) to {peaks[big]} '
                                               f'({big >> 20} MiB object)'))
    if case.get('constant'):
        counters['memory-probes-highly-compressible'] += len(peaks)
    return probs, counters, {'probe': 'memory', 'path': path, 'content': 'constant' if case.get('constant') else '3/4 random', 'peaks_bytes': {f'{k >> 20}MiB': v for k, v in peaks.items()}}
