"""C01: content-addressed round trip of one object through one write path, every read path, and later transformations."""
from __future__ import annotations

import hashlib
import io
import os
import random
from collections import Counter
from pathlib import Path

from . import common, gen, model, rawread

SIZES = [0, 1, 2, 100, 4096, 65535, 65536, 65537, 131071, 131072, 131073, 524287, 524288, 524289, 1048577]
KINDS = ['zero', 'rnd', 'text', 'mix']
PATHS = ['add_object', 'add_streamed:bytesio', 'add_streamed:dribble', 'add_streamed:file',
         'direct:plain', 'direct:z', 'direct:nh2', 'direct:nh1', 'direct:z+nh1', 'direct:single', 'direct:single+z',
         'streams:bytesio+z', 'streams:lazy', 'streams:file+nh2', 'streams:dribble', 'one:callback', 'one:z+dribble']
CHUNKS = [1, 7, 4096, 65536, 65537, 524288, 524289, -1]
MODES = ['no', 'yes', 'keep', 'auto']


def read_all_paths(cont, root, key, data, hash_type, counters, where, rnd, full_chunks=False):  # noqa: C901
    probs = []

    def bad(view, msg):
        probs.append((f'roundtrip:{view}', f'{where}: {msg}'))

    got = cont.get_object_content(key)
    if got != data:
        bad('get_object_content', f'returned {len(got)} bytes != stored {len(data)} bytes')
    bulk = cont.get_objects_content([key])
    if bulk != {key: data}:
        bad('get_objects_content', 'bulk read differs from the stored bytes')
    meta = cont.get_object_meta(key)
    if meta.size != len(data):
        bad('meta.size', f'get_object_meta size {meta.size} != {len(data)}')
    chunks = CHUNKS if full_chunks else [rnd.choice(CHUNKS[:3]), rnd.choice(CHUNKS[3:])]
    for size in chunks:
        if 0 < size < 4096 and len(data) > 70000:
            continue
        parts = []
        with cont.get_object_stream(key) as stream:
            while True:
                part = stream.read(size)
                if not part:
                    break
                if 0 < size < len(part):
                    bad('get_object_stream', f'read({size}) returned {len(part)} bytes')
                parts.append(part)
        counters['chunked-reads'] += 1
        if b''.join(parts) != data:
            bad('get_object_stream', f'chunked read (chunk {size}) differs: {sum(map(len, parts))} bytes vs {len(data)}')
    with cont.get_objects_stream_and_meta([key]) as triplets:
        n = 0
        for k, stream, m in triplets:
            n += 1
            if k != key or stream is None or stream.read() != data:
                bad('get_objects_stream_and_meta', 'bulk stream differs from the stored bytes')
            if m.size != len(data):
                bad('meta.size', f'bulk meta size {m.size} != {len(data)}')
        if n != 1:
            bad('get_objects_stream_and_meta', f'{n} triplets for one key')
    # the same reads through the other internal lookup strategy (ordered full scan instead of IN-chunks), selected by shadowing
    # the threshold on a second handle
    from disk_objectstore import Container  # pylint: disable=import-outside-toplevel

    scan = Container(root)
    scan._MAX_CHUNK_ITERATE_LENGTH = 0  # pylint: disable=protected-access
    try:
        if scan.get_objects_content([key]) != {key: data}:
            bad('get_objects_content:full-scan', 'bulk read through the full-scan strategy differs from the stored bytes')
        metas = dict(scan.get_objects_meta([key]))
        if key not in metas or metas[key].size != len(data):
            bad('meta.size:full-scan', f'size through the full-scan strategy is {getattr(metas.get(key), "size", None)} != {len(data)}')
        with scan.get_objects_stream_and_meta([key]) as triplets:
            for _k, stream, m in triplets:
                if stream is None or stream.read() != data or m.size != len(data):
                    bad('get_objects_stream_and_meta:full-scan', 'bulk stream/meta through the full-scan strategy differs')
        counters['full-scan-strategy-reads'] += 1
    finally:
        scan.close()
    snap = rawread.Snapshot(root)
    raw, prob = snap.read_key(key)
    if raw != data:
        bad('raw', f'raw reader (sqlite3+slice+zlib): {prob or "other bytes"}')
    counters['read-path-evaluations'] += 1
    return probs


def run_batch(case):  # noqa: C901
    rnd = random.Random(f'c01-{case["seed"]}')
    base = common.mkscratch('rt-')
    counters, vios, seen = Counter(), [], set()
    sample = None
    try:
        for i, sub in enumerate(case['subcases']):
            size, kind, path = sub['size'], sub['kind'], sub['path']
            cfg = {'hash_type': sub['hash'], 'loose_prefix_len': sub['prefix'], 'compression_algorithm': f'zlib+{sub["level"]}',
                   'pack_size_target': sub['target']}
            data = gen.content([kind, size, sub['cseed']])
            want = hashlib.new(sub['hash'], data).hexdigest()
            root = os.path.join(base, f'c{i}')
            world = model.World(root, cfg, aux=os.path.join(base, f'a{i}'))
            where = f'{size}-byte {kind} object via {path} [{sub["hash"]}, prefix {sub["prefix"]}, zlib+{sub["level"]}, target {sub["target"]}]'
            probs = []
            try:
                cont = world.handle()
                nb = [gen.content(['text', 300, 1]), gen.content(['rnd', 65537, 2])]
                spec = [kind, size, sub['cseed']]
                nbs = [['text', 300, 1], ['rnd', 65537, 2]]
                if path == 'add_object':
                    op = {'op': 'add_object', 'c': spec}
                elif path.startswith('add_streamed:'):
                    op = {'op': 'add_streamed', 'c': spec, 'stream': path.split(':')[1]}
                elif path.startswith('direct:'):
                    flags = path.split(':')[1]
                    single = flags.startswith('single')
                    op = {'op': 'add_objects_to_pack', 'cs': [spec] if single else [nbs[0], spec, nbs[1], spec],
                          'compress': 'z' in flags.replace('single', ''), 'no_holes': 'nh' in flags, 'read_twice': 'nh2' in flags}
                elif path.startswith('streams:'):
                    kindf, _, flags = path.split(':')[1].partition('+')
                    op = {'op': 'add_streamed_objects_to_pack', 'cs': [nbs[0], spec, nbs[1]], 'streams': kindf,
                          'compress': flags == 'z', 'no_holes': 'nh' in flags, 'read_twice': 'nh2' in flags}
                else:
                    flags = path.split(':')[1]
                    op = {'op': 'add_streamed_object_to_pack', 'c': spec, 'compress': 'z' in flags, 'callback': 'callback' in flags,
                          'stream': 'dribble' if 'dribble' in flags else 'bytesio'}
                world.apply(op)
                probs += [(m, f'{where}: {g}') for m, g in world.problems]
                counters[f'path:{path}'] += 1
                counters['writes'] += 1
                key = want
                probs += read_all_paths(cont, root, key, data, sub['hash'], counters, where, rnd, full_chunks=sub.get('full_chunks', False))
                # later transformations must not change what is read back
                for step in sub['then']:
                    if probs:
                        break
                    if step[0] == 'pack':
                        world.apply({'op': 'pack_all_loose', 'compress': step[1], 'clpp': step[2]})
                    elif step[0] == 'repack':
                        world.apply({'op': 'repack', 'mode': step[1]})
                    elif step[0] == 'clean':
                        world.apply({'op': 'clean_storage'})
                    elif step[0] == 'reopen':
                        world.apply({'op': 'reopen'})
                        cont = world.handle()
                    counters[f'then:{step[0]}'] += 1
                    probs += read_all_paths(cont, root, key, data, sub['hash'], counters, f'{where} after {step}', rnd)
            except Exception as exc:  # noqa: BLE001
                import traceback  # pylint: disable=import-outside-toplevel

                probs.append((f'roundtrip:raised:{type(exc).__name__}', f'{where}: {exc!r} :: {traceback.format_exc()[-400:]}'))
            finally:
                world.close()
                common.rmtree(root)
                common.rmtree(os.path.join(base, f'a{i}'))
            seen.add(common.digest(sub))
            for mech, msg in probs[:2]:
                vios.append(common.violation(mech, msg, {'subcase': sub}))
            if sample is None and sub['then']:
                sample = sub
            if len(vios) >= 6:
                break
        res = common.case_result(sig=f'rt{case["seed"]}', nontrivial=True, counters=counters, violations=vios, sample=sample)
        res['distinct'] = len(seen)
        res['evaluations'] = max(1, counters['writes'])
        return res
    finally:
        common.rmtree(base)


def gen_subcases(rnd, tier):
    out = []

    def sub(size=None, kind=None, path=None, **kw):
        s = {'size': size if size is not None else rnd.choice(SIZES), 'kind': kind or rnd.choice(KINDS), 'path': path or rnd.choice(PATHS),
             'hash': rnd.choice(['sha1', 'sha256']), 'prefix': rnd.choice([0, 1, 2, 3]), 'level': rnd.randrange(1, 10),
             'target': rnd.choice([1, 500, 70000, 4 * 1024 ** 3]), 'cseed': rnd.randrange(1 << 20)}
        s.update(kw)
        then = []
        if rnd.random() < 0.6:
            if s['path'].startswith('add'):
                then.append(('pack', rnd.choice(MODES + [True, False]), rnd.random() < 0.5))
            if rnd.random() < 0.5:
                then.append(('clean',))
            if rnd.random() < 0.6:
                then.append(('repack', rnd.choice(MODES)))
            if rnd.random() < 0.3:
                then.append(('reopen',))
            if rnd.random() < 0.3:
                then.append(('repack', rnd.choice(MODES)))
        s['then'] = then
        return s

    kinds = KINDS if tier == 'thorough' else ['rnd', 'text']
    for size in SIZES:
        for path in PATHS:
            for kind in kinds:
                if tier == 'quick' and size > 131073 and kind == 'text' and path not in ('add_object', 'direct:z', 'one:z+dribble'):
                    continue
                out.append(sub(size=size, kind=kind, path=path))
    for path in PATHS:
        for h in ('sha1', 'sha256'):
            for prefix in (0, 1, 2, 3):
                for level in ((1, 6, 9) if tier == 'quick' else range(1, 10)):
                    for target in (1, 4 * 1024 ** 3):
                        if tier == 'quick' and rnd.random() < 0.5:
                            continue
                        out.append(sub(size=rnd.choice(SIZES[:11]), path=path, hash=h, prefix=prefix, level=level, target=target))
    for size in SIZES:  # every chunk size on every size class, through one loose and one compressed path
        for path in ('add_object', 'direct:z'):
            out.append(sub(size=size, kind='mix', path=path, full_chunks=True))
    return out
