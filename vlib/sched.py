"""E3: deterministic scheduler - actors are threads of which exactly one runs at a time.

Every interposed I/O event of an actor (see :mod:`vlib.iotrace`) is a switch point: the actor hands
control back to the controller, which asks the *picker* who runs next.  The sequence of
``(actor, event shape)`` is the trace; the list of picks replays it.  Actors may also call
``sched.point(label)`` themselves (used for phase boundaries that are not file-system calls).
"""
from __future__ import annotations

import threading
import time
import traceback

from . import iotrace


class Deadlock(Exception):
    pass


class Actor:
    def __init__(self, name, fn):
        self.name, self.fn = name, fn
        self.go = threading.Semaphore(0)
        self.done = False
        self.started = False
        self.error = None
        self.result = None
        self.events = 0
        self.thread = None
        self.last_label = None


class Scheduler:
    def __init__(self, picker, watchdog_s=60.0, switch_on=None):
        self.actors: dict[str, Actor] = {}
        self.picker = picker
        self.control = threading.Semaphore(0)
        self.trace: list[tuple[str, str]] = []
        self.picks: list[str] = []
        self.watchdog_s = watchdog_s
        self.switch_on = switch_on or (lambda ev: True)
        self.current = None
        self.clock = 0  # logical time: number of scheduling decisions so far
        self.timed_out = False

    def add(self, name, fn):
        self.actors[name] = Actor(name, fn)

    # -- called in actor threads -----------------------------------------------------------------
    def _on_event(self, ev):
        actor = self.actors.get(ev.actor)
        if actor is None or threading.current_thread() is not actor.thread:
            return
        if not self.switch_on(ev):
            return
        actor.events += 1
        self._yield(actor, ev.shape())

    def point(self, label):
        """Explicit switch point (phase boundary) of the calling actor."""
        name = iotrace.get_actor()
        actor = self.actors.get(name)
        if actor is None or threading.current_thread() is not actor.thread:
            return
        self._yield(actor, f'point:{label}')

    def _yield(self, actor, label):
        actor.last_label = label
        self.trace.append((actor.name, label))
        self.control.release()
        actor.go.acquire()

    def _body(self, actor):
        iotrace.set_actor(actor.name)
        actor.go.acquire()
        try:
            actor.result = actor.fn()
        except BaseException as exc:  # noqa: BLE001
            actor.error = (exc, traceback.format_exc())
        finally:
            actor.done = True
            self.trace.append((actor.name, 'done'))
            self.control.release()

    # -- controller ---------------------------------------------------------------------------------
    def run(self):
        for actor in self.actors.values():
            actor.thread = threading.Thread(target=self._body, args=(actor,), daemon=True, name=f'actor-{actor.name}')
            actor.thread.start()
        while True:
            runnable = [a for a in self.actors.values() if not a.done]
            if not runnable:
                break
            nxt = self.picker(self, runnable)
            if nxt is None:
                nxt = runnable[0]
            self.picks.append(nxt.name)
            self.clock += 1
            self.current = nxt
            nxt.started = True
            nxt.go.release()
            if not self.control.acquire(timeout=self.watchdog_s):
                self.timed_out = True
                raise Deadlock(f'no progress for {self.watchdog_s}s while running {nxt.name} (last label {nxt.last_label})')
        return self

    def errors(self):
        return {a.name: a.error for a in self.actors.values() if a.error}


# ------------------------------------------------------------------------------------------- pickers
def script_picker(segments, then=None):
    """segments: list of (actor, n) - run `actor` for n scheduling steps (or until it is done); n=None: until done.
    (actor, 'until', label): run until the actor's last yielded label == label (the actor is parked AT that point).
    Afterwards every remaining actor runs to completion in the order of `then` (default: insertion order)."""
    state = {'i': 0, 'left': None}

    def pick(sched, runnable):
        names = {a.name: a for a in runnable}
        while state['i'] < len(segments):
            seg = segments[state['i']]
            actor = names.get(seg[0])
            if actor is None:  # finished already
                state['i'] += 1
                state['left'] = None
                continue
            if len(seg) == 3 and seg[1] == 'until':
                if actor.started and actor.last_label in (seg[2], f'point:{seg[2]}'):
                    state['i'] += 1
                    continue
                return actor
            n = seg[1]
            if n is None:
                return actor
            if state['left'] is None:
                state['left'] = n
            if state['left'] <= 0:
                state['i'] += 1
                state['left'] = None
                continue
            state['left'] -= 1
            return actor
        for name in (then or list(sched.actors)):
            if name in names:
                return names[name]
        return runnable[0]

    return pick


def random_picker(rnd, switch_p=0.3):
    state = {'cur': None}

    def pick(_sched, runnable):
        cur = state['cur']
        if cur is None or cur.done or rnd.random() < switch_p:
            state['cur'] = rnd.choice(runnable)
        return state['cur']

    return pick


def pct_picker(rnd, nactors, depth=2, horizon=300):
    """PCT-style: random priorities, `depth` priority change points at random steps."""
    prios = {}
    changes = sorted(rnd.randrange(1, horizon) for _ in range(depth))
    step = {'n': 0}

    def pick(_sched, runnable):
        step['n'] += 1
        for a in runnable:
            if a.name not in prios:
                prios[a.name] = rnd.random() + 1.0
        best = max(runnable, key=lambda a: prios[a.name])
        if changes and step['n'] >= changes[0]:
            changes.pop(0)
            prios[best.name] = rnd.random() * 0.5  # demote the running actor
            best = max(runnable, key=lambda a: prios[a.name])
        return best

    return pick


def replay_picker(picks):
    it = iter(picks)

    def pick(_sched, runnable):
        names = {a.name: a for a in runnable}
        for name in it:
            if name in names:
                return names[name]
        return runnable[0]

    return pick


def run_actors(roots, actors: dict, picker, switch_on=None, watchdog_s=60.0):
    """Install the interposition layer with the scheduler as plan, run, uninstall. Returns the Scheduler."""
    sched = Scheduler(picker, watchdog_s=watchdog_s, switch_on=switch_on)
    for name, fn in actors.items():
        sched.add(name, fn)
    iotrace.install(roots, plan=sched._on_event, audit=False)  # pylint: disable=protected-access
    t0 = time.time()
    try:
        sched.run()
    finally:
        iotrace.uninstall()
    sched.wall = time.time() - t0
    return sched
