"""E6: stream programs run in lock-step on the library's stream and on a position/contents model (C07)."""
from __future__ import annotations

import itertools
import os
import random
from collections import Counter

from . import common, gen

FORMS = ['loose', 'plain', 'zipped', 'zipped+cache', 'zipped+cache-removed', 'bulk-plain', 'bulk-zipped', 'bare']
SMALL = [0, 1, 10]
LARGE = [768, 70000, 150000, 600000]
BEFORE = b'<<NEIGHBOUR-BEFORE>>' * 40
AFTER = b'[[NEIGHBOUR-AFTER]]' * 40


def small_alphabet(L):  # noqa: N803
    ops = [('read', 0), ('read', 1), ('read', 3), ('read', -1), ('tell',)]
    for t in sorted({0, 1, L // 2, L, L + 1, -1}):
        ops.append(('seek', t, 0))
    for t in (1, -1, -2, L + 2):
        ops.append(('seek', t, 1))
    for t in sorted({0, -1, -3, 1, -(L + 2), -L}):
        ops.append(('seek', t, 2))
    return ops


def random_program(rnd, L, n):  # noqa: N803
    prog = []
    only_abs = rnd.random() < 0.3  # absolute seeks only: a compressed packed stream then stays on its re-inflate-from-zero path
    for _ in range(n):
        x = rnd.random()
        if x < 0.35:
            size = rnd.choice([0, 1, 7, 100, 4096, 65536, 65537, 300000, 524288, 524289, L // 3 + 1, max(1, L - 3), -1, None])
            prog.append(('read', size))
        elif x < 0.45:
            prog.append(('tell',))
        else:
            w = 0 if only_abs else rnd.choice([0, 0, 1, 1, 2])
            inrange = rnd.random() < 0.8
            if w == 0:
                t = rnd.randint(0, L) if inrange else rnd.choice([-1, -5, L + 1, L + 70000])
            elif w == 1:
                t = rnd.randint(-L, L) if inrange else rnd.choice([-(L + 5), L + 5, 2 * L + 10])
                if rnd.random() < 0.5:
                    t = rnd.randint(-min(L, 200), min(L, 200))
            else:
                t = -rnd.randint(0, L) if inrange else rnd.choice([1, 5, -(L + 1), -(L + 20), 70000])
            prog.append(('seek', t, w))
    return prog


class Outcome:
    def __init__(self):
        self.problems = []
        self.counters = Counter()


def underlying_gap(stream):
    """(position of the underlying pack handle - object offset, length) when the private layout allows it."""
    cur = stream
    for _ in range(4):
        if hasattr(cur, '_fhandle') and hasattr(cur, '_offset') and hasattr(cur, '_length'):
            try:
                return cur._fhandle.tell() - cur._offset, cur._length  # pylint: disable=protected-access
            except (ValueError, OSError):
                return None
        nxt = getattr(cur, '_compressed_stream', None) or getattr(cur, '_stream', None)
        if nxt is None:
            return None
        cur = nxt
    return None


def run_program(stream, content, prog, form, out: Outcome, mid_hook=None):  # noqa: C901
    """Lock-step execution; appends (mechanism, message) to out.problems at the first deviation."""
    L = len(content)  # noqa: N806
    pos = 0
    bare = form == 'bare'
    for i, op in enumerate(prog):
        if mid_hook is not None and i == len(prog) // 2:
            mid_hook()
        try:
            if op[0] == 'read':
                n = op[1]
                want = content[pos:] if (n is None or n < 0) else content[pos:pos + n]
                got = stream.read() if n is None else stream.read(n)
                out.counters['reads'] += 1
                if got != want:
                    leak = b'NEIGHBOUR' in got
                    out.problems.append((f'stream:read-wrong-bytes:{form}' + (':neighbour-leak' if leak else ''),
                                         f'step {i} {op}: read at position {pos} of a {L}-byte object returned {len(got)} bytes '
                                         f'{got[:24]!r}, expected {len(want)} bytes {want[:24]!r}'))
                    return
                pos += len(got)
            elif op[0] == 'tell':
                got = stream.tell()
                out.counters['tells'] += 1
                if got != pos:
                    out.problems.append((f'stream:tell:{form}', f'step {i}: tell() = {got}, model position {pos}'))
                    return
            else:
                _, t, w = op
                new = t if w == 0 else (pos + t if w == 1 else L + t)
                inrange = 0 <= new <= L
                try:
                    ret = stream.seek(t, w)
                    raised = None
                except Exception as exc:  # noqa: BLE001 - any exception is a rejection
                    raised, ret = exc, None
                out.counters['seeks-in-range' if inrange else 'seeks-out-of-range'] += 1
                if inrange:
                    if raised is not None:
                        if bare and w == 2 and isinstance(raised, NotImplementedError):
                            out.counters['bare-whence2-rejected'] += 1
                        else:
                            out.problems.append((f'stream:in-range-seek-raised:{form}',
                                                 f'step {i}: seek({t},{w}) to {new} in [0,{L}] raised {raised!r}'))
                            return
                    else:
                        if ret != new:
                            out.problems.append((f'stream:seek-return:{form}:whence{w}',
                                                 f'step {i}: seek({t},{w}) returned {ret}, io.BytesIO returns {new}'))
                            return
                        pos = new
                else:
                    if raised is not None:
                        out.counters['out-of-range-rejected'] += 1
                    else:
                        ok = (ret == new and new > L) or (isinstance(ret, int) and 0 <= ret <= L)
                        if not ok:
                            out.problems.append((f'stream:out-of-range-seek-accepted:{form}:whence{w}',
                                                 f'step {i}: seek({t},{w}) to {new} outside [0,{L}] returned {ret}'))
                            return
                        out.counters['out-of-range-clamped-or-filelike'] += 1
                        pos = ret
                # position must have survived whatever happened
                try:
                    now = stream.tell()
                except Exception as exc:  # noqa: BLE001
                    out.problems.append((f'stream:tell-raised:{form}', f'step {i}: tell() after seek({t},{w}) raised {exc!r}'))
                    return
                if now != pos:
                    out.problems.append((f'stream:position-corrupted:{form}:whence{w}',
                                         f'step {i}: after seek({t},{w}) ({"rejected: " + repr(raised) if raised else "returned " + str(ret)}) '
                                         f'tell() = {now}, model position {pos} (object length {L})'))
                    return
        except Exception as exc:  # noqa: BLE001 - read()/tell() must never raise
            out.problems.append((f'stream:{op[0]}-raised:{form}', f'step {i} {op} at position {pos}/{L} raised {exc!r}'))
            return
        gap = underlying_gap(stream)
        if gap is not None:
            out.counters['pack-reader-invariant-checks'] += 1
            if not 0 <= gap[0] <= gap[1]:
                out.problems.append((f'stream:pack-handle-outside-object:{form}',
                                     f'step {i} {op}: underlying pack handle is at {gap[0]} relative to the object (length {gap[1]})'))
                return


class Lab:
    """One object in every storage form, between two neighbours."""

    def __init__(self, base, content):
        from disk_objectstore import Container  # pylint: disable=import-outside-toplevel

        self.content = content
        self.conts = {}
        for name, compress in (('loose', None), ('plain', False), ('zipped', True)):
            cont = Container(os.path.join(base, name))
            cont.init_container(clear=True, compression_algorithm='zlib+1')
            if compress is None:
                self.key = cont.add_object(content)
            else:
                keys = cont.add_objects_to_pack([BEFORE, content, AFTER], compress=compress)
                self.key = keys[1]
                self.neighbours = [keys[0], keys[2]]
            self.conts[name] = cont

    def close(self):
        for cont in self.conts.values():
            cont.close()

    def _drop_cache(self):
        cont = self.conts['zipped']
        path = cont._get_loose_path_from_hashkey(self.key)  # pylint: disable=protected-access
        if os.path.exists(path):
            os.remove(path)

    def run(self, form, prog, out):
        from disk_objectstore.utils import PackedObjectReader, ZlibStreamDecompresser  # pylint: disable=import-outside-toplevel

        content = self.content
        if form in ('loose', 'plain', 'zipped'):
            with self.conts[form].get_object_stream(self.key) as stream:
                if form == 'zipped':
                    self._drop_cache()
                run_program(stream, content, prog, form, out)
            if form == 'zipped':
                self._drop_cache()
        elif form in ('zipped+cache', 'zipped+cache-removed'):
            cont = self.conts['zipped']
            cont.loosen_object(self.key)
            with cont.get_object_stream(self.key) as stream:
                run_program(stream, content, prog, form, out,
                            mid_hook=self._drop_cache if form.endswith('removed') else None)
            self._drop_cache()
        elif form in ('bulk-plain', 'bulk-zipped'):
            cont = self.conts['plain' if form == 'bulk-plain' else 'zipped']
            seen = 0
            with cont.get_objects_stream_and_meta([self.key] + self.neighbours) as triplets:
                for key, stream, _meta in triplets:
                    seen += 1
                    if key == self.key:
                        run_program(stream, content, prog, form, out)
                    else:
                        data = stream.read()  # the neighbours must be unaffected by what the program did
                        if data not in (BEFORE, AFTER):
                            out.problems.append((f'stream:neighbour-damaged:{form}', 'a neighbour read back wrong in the same bulk read'))
            if seen != 3:
                out.problems.append((f'stream:bulk-count:{form}', f'bulk read yielded {seen} objects'))
            if form == 'bulk-zipped':
                self._drop_cache()
        elif form == 'bare':
            cont = self.conts['zipped']
            meta = cont.get_object_meta(self.key)
            path = cont._get_pack_path_from_pack_id(meta.pack_id)  # pylint: disable=protected-access
            with open(path, 'rb') as fh:
                stream = ZlibStreamDecompresser(PackedObjectReader(fh, meta.pack_offset, meta.pack_length))
                run_program(stream, content, prog, form, out)
        else:
            raise ValueError(form)


def run_case(case):
    """Worker: one object size/kind, a list of programs (explicit or generated), all forms."""
    rnd = random.Random(f'streamlab-{case["seed"]}')
    size = case['size']
    content = gen.content([case.get('kind', 'text'), size, case['seed'] % 1000])
    base = common.mkscratch('stream-')
    out = Outcome()
    lab = None
    sample = None
    nprog = 0
    seen = set()
    try:
        lab = Lab(base, content)
        if case['programs'] == 'exhaustive':
            alpha = small_alphabet(size)
            progs = []
            for n in range(1, case['maxlen'] + 1):
                progs += [list(p) for p in itertools.product(alpha, repeat=n)]
            if case.get('sample_last'):
                full = [list(p) for p in itertools.product(alpha, repeat=case['maxlen'] + 1)]
                progs += rnd.sample(full, min(case['sample_last'], len(full)))
        else:
            progs = [random_program(rnd, size, rnd.randint(12, 40)) for _ in range(case['programs'])]
        forms = case.get('forms', FORMS)
        for prog in progs:
            for form in forms:
                if form.startswith('bulk') and case['programs'] == 'exhaustive' and len(prog) < case['maxlen']:
                    continue
                before = len(out.problems)
                lab.run(form, prog, out)
                nprog += 1
                seen.add(hash((tuple(prog), form)))
                out.counters[f'form:{form}'] += 1
                if len(out.problems) > before:
                    mech, msg = out.problems[-1]
                    out.problems[-1] = (mech, f'{size}-byte {case.get("kind", "text")} object, form {form}, program {prog}: {msg}', prog, form)
                    if len(out.problems) >= 6:
                        break
            if len(out.problems) >= 6:
                break
            if sample is None and len(prog) >= 3:
                sample = {'size': size, 'program': [list(o) for o in prog], 'forms': forms}
        sigs = len(seen)
        vios = [common.violation(p[0], p[1], {'case': {**case, 'programs': 'explicit', 'explicit': [[list(o) for o in p[2]]],
                                                       'forms': [p[3]]}}) for p in out.problems]
        out.counters['program-runs'] = nprog
        out.counters['optimized' if not __debug__ else 'with-asserts'] += nprog
        res = common.case_result(sig=common.digest([case, 'O' if not __debug__ else 'dbg']), nontrivial=True, counters=out.counters,
                                 violations=vios, sample=sample)
        res['distinct'] = sigs
        res['evaluations'] = nprog
        return res
    finally:
        if lab:
            lab.close()
        common.rmtree(base)


def run_explicit(case):
    """Replay worker: explicit programs."""
    content = gen.content([case.get('kind', 'text'), case['size'], case['seed'] % 1000])
    base = common.mkscratch('stream-')
    out = Outcome()
    lab = Lab(base, content)
    try:
        for prog in case['explicit']:
            prog = [tuple(o) for o in prog]
            for form in case.get('forms', FORMS):
                lab.run(form, prog, out)
                out.counters['program-runs'] += 1
        vios = [common.violation(m, g, {'case': case}) for m, g in out.problems]
        return common.case_result(sig=common.digest(case), nontrivial=True, counters=out.counters, violations=vios,
                                  sample={'replayed': case['explicit']})
    finally:
        lab.close()
        common.rmtree(base)
