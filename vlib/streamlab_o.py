"""Runs stream-lab cases in THIS interpreter (started with -O: asserts stripped) and dumps the raw results."""
import json
import sys

from . import common, streamlab


def main():
    cases = json.load(open(sys.argv[1], encoding='utf8'))
    run = common.Run('C07', 'exploration', 'quick', 0, 'inner')
    results = run.map(streamlab.run_case, cases)
    with open(sys.argv[2], 'w', encoding='utf8') as fh:
        json.dump({'results': results, 'inconclusive': run.inconclusive, 'debug': __debug__}, fh, default=repr)


if __name__ == '__main__':
    main()
