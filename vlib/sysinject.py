"""E5: kill / errno injection at REAL-SYSCALL granularity with strace, on an uninstrumented interpreter.

The child (``vlib.sysinject_child``) stops itself right before the operation; strace is attached to that window with
``-e inject=<syscall>:signal=KILL:when=<n>`` (crash; delivered on syscall entry) or ``:error=<errno>:when=<n>`` (fault).
A dry run gives the real syscall sequence with fd->path decoding (-y), so SQLite's WAL writes, fdatasyncs and CPython's
buffered-writer flushes are individual boundaries.  The same dry-run log feeds the offline ordering checker of C06.
"""
from __future__ import annotations

import ast
import json
import os
import re
import shutil
import signal
import subprocess
import sys
import time
from collections import Counter

from . import common, crashlab

TRACE = ('write,pwrite64,fsync,fdatasync,rename,renameat,renameat2,unlink,unlinkat,link,linkat,mkdir,mkdirat,ftruncate,'
         'truncate,openat')
LINE = re.compile(r'^(\d+)\s+(\w+)\((.*)\)\s+=\s+(-?\d+|\?)(.*)$')
MUTATING = {'write', 'pwrite64', 'fsync', 'fdatasync', 'rename', 'renameat', 'renameat2', 'unlink', 'unlinkat', 'link', 'linkat',
            'mkdir', 'mkdirat', 'ftruncate', 'truncate'}


def available():
    return shutil.which('strace') is not None


class Call:
    __slots__ = ('name', 'args', 'ret', 'ordinal', 'paths', 'line', 'injected')

    def __init__(self, name, args, ret, ordinal, paths, line):
        self.name, self.args, self.ret, self.ordinal, self.paths, self.line = name, args, ret, ordinal, paths, line
        self.injected = '(INJECTED)' in line

    def rel(self, root):
        return [os.path.relpath(p, root) for p in self.paths if p == root or p.startswith(root + os.sep)]

    def brief(self, root):
        rels = self.rel(root)
        return f'{self.name}({",".join(_short(r) for r in rels)})#{self.ordinal}'


def _short(rel):
    return os.sep.join(p if len(p) <= 14 else p[:6] + '..' for p in rel.split(os.sep))


def parse(log_text):
    calls, ords = [], Counter()
    killed = '+++ killed by SIGKILL +++' in log_text
    for line in log_text.splitlines():
        m = LINE.match(line)
        if not m:
            continue
        name, args, ret = m.group(2), m.group(3), m.group(4)
        ords[name] += 1
        paths = re.findall(r'<(/[^<>]*)>', args) + re.findall(r'"(/[^"]*)"', args)
        calls.append(Call(name, args, ret, ords[name], paths, line))
    # a killed syscall has no "= ret": strace prints it as unfinished or not at all; count it through the exit marker
    return calls, killed


def run_traced(tmpl, inject=None, timeout=120):
    """Run the variant's operation under strace in a fresh copy. Returns dict(rundir, calls, killed, exit, result)."""
    rundir = tmpl.copy()
    vfile = os.path.join(rundir, 'variant.json')
    with open(vfile, 'w', encoding='utf8') as fh:
        json.dump(tmpl.variant, fh)
    env = dict(os.environ)
    env['PYTHONPATH'] = common.VERIF + (os.pathsep + os.environ['VERIF_REPO'] if os.environ.get('VERIF_REPO') else '')
    child = subprocess.Popen([sys.executable, '-m', 'vlib.sysinject_child', rundir, vfile], env=env, cwd=common.VERIF,
                             stdout=subprocess.DEVNULL, stderr=subprocess.PIPE)
    t0 = time.time()
    while True:
        if child.poll() is not None:
            return {'rundir': rundir, 'error': f'child exited early rc={child.returncode}: {child.stderr.read()[-400:]!r}'}
        try:
            state = open(f'/proc/{child.pid}/stat', encoding='utf8').read().rsplit(') ', 1)[1][0]
        except OSError:
            state = '?'
        if state in 'Tt':
            break
        if time.time() - t0 > timeout:
            child.kill()
            return {'rundir': rundir, 'error': 'child never reached its stop point'}
        time.sleep(0.004)
    log = os.path.join(rundir, 'strace.log')
    cmd = ['strace', '-f', '-y', '-s', '64', '-p', str(child.pid), '-o', log, '-e', f'trace={TRACE}']
    if inject:
        cmd += ['-e', f'inject={inject}']
    tracer = subprocess.Popen(cmd, stderr=subprocess.PIPE, stdout=subprocess.DEVNULL)
    line = tracer.stderr.readline()  # "strace: Process N attached"
    if b'attached' not in line:
        child.kill()
        tracer.kill()
        return {'rundir': rundir, 'error': f'strace did not attach: {line!r} {tracer.stderr.read()[-300:]!r}'}
    os.kill(child.pid, signal.SIGCONT)
    try:
        child.wait(timeout=timeout)
    except subprocess.TimeoutExpired:
        child.kill()
        tracer.kill()
        return {'rundir': rundir, 'error': 'traced child did not finish'}
    try:
        tracer.wait(timeout=30)
    except subprocess.TimeoutExpired:
        tracer.kill()
    text = open(log, encoding='utf8', errors='replace').read() if os.path.exists(log) else ''
    calls, killed = parse(text)
    result = None
    rpath = os.path.join(rundir, 'child_result.json')
    if os.path.exists(rpath):
        result = json.load(open(rpath, encoding='utf8'))
    return {'rundir': rundir, 'calls': calls, 'killed': killed, 'exit': child.returncode, 'result': result, 'text': text}


def boundaries(calls, root, for_faults=False):
    """Calls on container paths that are crash (mutating) or fault points, in order."""
    out = []
    shm_seen = False
    for c in calls:
        rels = c.rel(root)
        if not rels:
            continue
        if any(r.startswith('..') or 'child_result' in r or r.startswith('strace') for r in rels):
            continue
        if c.name in MUTATING:
            if all(r.endswith('-shm') for r in rels):
                if shm_seen:
                    continue  # the shared-memory index is rebuilt by SQLite; one representative boundary is enough
                shm_seen = True
            out.append(c)
        elif for_faults and c.name == 'openat':
            out.append(c)
    return out


# --------------------------------------------------------------------------------------- C06 ordering checker
def _cbytes(arg):
    m = re.search(r'"((?:[^"\\]|\\.)*)"', arg)
    if not m:
        return b''
    try:
        return ast.literal_eval('b"' + m.group(1) + '"')
    except (SyntaxError, ValueError):
        return b''


def ordering_problems(calls, root, is_delete=False):
    """Offline checker over the real syscall log: publish only after durable, remove only after the replacement is committed.

    R1 rename(sandbox/x -> loose/...) requires x clean (no write since its last fsync/fdatasync);
    R2 when a WAL commit frame is written, every file under packs/ written by this process is clean;
    R3 unlink of a loose object / of a pack file happens only when no pack bytes are waiting for a commit.
    """
    probs = []
    dirty = {}
    pending_pack_writes = False
    commits = 0
    stats = Counter()
    page = None
    for c in calls:
        rels = c.rel(root)
        if not rels or c.ret.startswith('-'):
            continue
        rel = rels[0]
        if c.name in ('write', 'pwrite64'):
            if rel.startswith('packs.idx-wal'):
                data = _cbytes(c.args)
                m = re.search(r',\s*(\d+),\s*(\d+)\s*$', c.args)
                if m:
                    length, offset = int(m.group(1)), int(m.group(2))
                    if offset == 0 and length == 32 and len(data) >= 12:
                        page = int.from_bytes(data[8:12], 'big')
                    if length == 24 and offset >= 32 and len(data) >= 8:
                        stats['wal-frame-headers'] += 1
                        if int.from_bytes(data[4:8], 'big') != 0:  # "database size after commit" != 0: a commit frame
                            commits += 1
                            stats['wal-commit-frames'] += 1
                            bad = sorted(p for p, d in dirty.items() if d and p.startswith('packs/'))
                            if bad:
                                probs.append(('order:R2-commit-on-unsynced-pack',
                                              f'a WAL commit frame is written while {bad} has bytes not yet fsynced'))
                            pending_pack_writes = False
            elif rel.startswith(('packs/', 'sandbox/', 'loose/')) and not rel.endswith('.lock'):
                dirty[rel] = True
                stats['data-writes'] += 1
                if rel.startswith('packs/'):
                    pending_pack_writes = True
        elif c.name == 'ftruncate':
            if rel.startswith('packs/'):
                dirty[rel] = True
        elif c.name in ('fsync', 'fdatasync'):
            if rel in dirty:
                dirty[rel] = False
            stats['syncs'] += 1
        elif c.name in ('rename', 'renameat', 'renameat2'):
            if len(rels) >= 2:
                src, dst = rels[0], rels[1]
                if src.startswith('sandbox/') and dst.startswith('loose/'):
                    stats['publishing-renames'] += 1
                    if dirty.get(src, False):
                        probs.append(('order:R1-rename-before-fsync', f'{_short(src)} is renamed to {_short(dst)} while it has bytes not yet fsynced'))
                    elif src not in dirty:
                        stats['renames-of-empty-objects'] += 1
                dirty[dst] = dirty.pop(src, False)
        elif c.name in ('link', 'linkat'):
            if len(rels) >= 2:
                dirty[rels[1]] = dirty.get(rels[0], False)
        elif c.name in ('unlink', 'unlinkat'):
            if rel.startswith('loose/') and not is_delete:
                stats['loose-unlinks'] += 1
                if pending_pack_writes:
                    probs.append(('order:R3-loose-removed-before-commit', f'{_short(rel)} is unlinked while pack bytes written before it are not committed to the index'))
            elif rel.startswith('packs/') and rel.split('/')[1].lstrip('-').isdigit():
                stats['pack-unlinks'] += 1
                if pending_pack_writes:
                    probs.append(('order:R3-pack-removed-before-commit', f'{rel} is unlinked while the rewritten pack is not committed to the index'))
            dirty.pop(rel, None)
    stats['commits'] = commits
    return probs, stats
