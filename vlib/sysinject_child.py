"""Child of E5: runs one operation variant in an UNINSTRUMENTED interpreter; stops itself right before the operation so
that strace can be attached to exactly the operation's window.   python -m vlib.sysinject_child <rundir> <variant.json>"""
import json
import os
import signal
import sys
import tempfile


def main():
    rundir, vfile = sys.argv[1], sys.argv[2]
    variant = json.load(open(vfile, encoding='utf8'))
    from vlib import model  # noqa: E402  pylint: disable=import-outside-toplevel

    # warm-up on a throw-away container: finish lazy imports, SQLAlchemy compilation caches, zlib, hashlib ...
    warm = tempfile.mkdtemp(prefix='warm-', dir=rundir)
    w = model.World(os.path.join(warm, 'c'), variant['cfg'], aux=os.path.join(warm, 'aux'))
    w.apply({'op': 'add_object', 'c': ['text', 50, 1]})
    w.apply({'op': 'pack_all_loose', 'compress': 'yes', 'clpp': True})
    w.apply({'op': 'add_objects_to_pack', 'cs': [['text', 60, 2]], 'compress': True, 'no_holes': True})
    w.apply({'op': 'clean_storage'})
    w.apply({'op': 'repack', 'mode': 'keep'})
    w.apply({'op': 'delete', 'cs': [['text', 60, 2]], 'absent': []})
    w.close()
    root = os.path.join(rundir, 'c')
    world = model.World.attach(root, variant['cfg'], variant.get('pre_model_placeholder') or {}, aux=os.path.join(rundir, 'aux'))
    world.lenient = True
    ops = variant['op'] if isinstance(variant['op'], list) else [variant['op']]
    sys.stdout.flush()
    os.kill(os.getpid(), signal.SIGSTOP)  # ---- the harness attaches strace here and continues us
    raised = None
    try:
        for op in ops:
            world.apply(op)
    except BaseException as exc:  # noqa: BLE001
        raised = f'{type(exc).__name__}: {exc}'[:300]
    with open(os.path.join(rundir, 'child_result.json'), 'w', encoding='utf8') as fh:
        json.dump({'raised': raised, 'problems': [list(p) for p in world.problems[:4]]}, fh)
    os._exit(0)  # no interpreter shutdown noise inside the traced window


if __name__ == '__main__':
    main()
