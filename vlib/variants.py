"""Operation variants x pre-states for the crash / power-loss / fault labs (C05, C06, C17)."""
from __future__ import annotations

GiB4 = 4 * 1024 ** 3

# contents -----------------------------------------------------------------------------------------
A = [['rnd', 100, 11], ['text', 768, 12], ['zero', 10, 13], ['rnd', 0, 14], ['text', 1500, 15]]
B = [['rnd', 300, 21], ['text', 900, 22], ['zero', 2000, 23]]
M = [['text', 70000, 31], ['rnd', 131073, 32]]
BIG = ['mix', 600000, 33]
NEW = [['rnd', 200, 41], ['text', 1000, 42], ['zero', 4096, 43]]
NEWM = ['text', 150000, 44]
L = ['rnd', 210, 46]  # loose-only small object of the 'mixed' pre-state


def cfg(target=GiB4, hash_type='sha256', prefix=2, level=1):
    return {'hash_type': hash_type, 'loose_prefix_len': prefix, 'compression_algorithm': f'zlib+{level}',
            'pack_size_target': target}


def adds(specs):
    return [{'op': 'add_object', 'c': s} for s in specs]


def pack(compress='no', clpp=False, validate=True, **kw):
    return {'op': 'pack_all_loose', 'compress': compress, 'clpp': clpp, 'validate': validate, **kw}


CLEAN = {'op': 'clean_storage', 'vacuum': False}

# pre-states ------------------------------------------------------------------------------------------
PRE = {
    'empty': [],
    'loose': adds(A + M[:1]),
    'loose-damaged': adds(A + M[:1]) + [{'op': 'damage_loose', 'c': A[1]}],  # one loose copy holds wrong bytes
    'small': adds(A + B),  # only small objects: their bytes are still in the user-space buffer when the pack is closed
    'plain': adds(A + M[:1]) + [pack('no'), CLEAN],
    'zipped': adds(A + M[:1]) + [pack('yes'), CLEAN],
    # packs with holes (objects deleted after packing): a repack really moves the surviving objects
    'plain-holes': adds(A + M[:1]) + [pack('no'), CLEAN, {'op': 'delete', 'cs': [A[1], A[2]], 'absent': []}],
    'zipped-holes': adds(A + M[:1]) + [pack('yes'), CLEAN, {'op': 'delete', 'cs': [A[0], A[4]], 'absent': []}],
    # some packed+cleaned, some packed and still loose, some loose only
    'mixed': adds(A) + [pack('no'), CLEAN] + adds(B) + [pack('yes')] + adds(M[:1] + [L]),
}


def variants(tier: str, default_fsync_only: bool = False):  # noqa: C901
    """List of variant dicts. quick: one pre-state per op variant; thorough: 2-3 pre-states each."""
    out = []

    def add(name, op, pres, target=GiB4, quick=True, fsync_default=True, hash_type='sha256', prefix=2, repack=False):
        pres = pres if tier == 'thorough' else pres[:1]
        if tier == 'quick' and not quick:
            return
        if default_fsync_only and not fsync_default:
            return
        for pre in pres:
            out.append({'name': f'{name}@{pre}/t{target if target < GiB4 else "4G"}', 'cfg': cfg(target, hash_type, prefix),
                        'pre': PRE[pre], 'op': op, 'is_repack': repack})

    # loose writes -------------------------------------------------------------------------------------
    add('add_object:new', {'op': 'add_object', 'c': NEW[0]}, ['mixed', 'empty', 'loose'])
    add('add_object:new:prefix0', {'op': 'add_object', 'c': NEW[0]}, ['loose'], prefix=0, quick=False)
    add('add_object:dup-of-loose', {'op': 'add_object', 'c': A[1]}, ['loose', 'mixed'])
    add('add_object:readd-damaged-loose-copy', {'op': 'add_object', 'c': A[1]}, ['loose-damaged'])
    add('add_object:dup-of-packed', {'op': 'add_object', 'c': A[1]}, ['plain'], quick=False)
    add('add_streamed:multichunk', {'op': 'add_streamed', 'c': BIG, 'stream': 'bytesio'}, ['mixed', 'empty'])
    add('add_streamed:dribble', {'op': 'add_streamed', 'c': NEWM, 'stream': 'dribble'}, ['loose'], quick=False)
    add('loosen:compressed', {'op': 'loosen', 'c': A[1]}, ['zipped'])
    add('seek_read:reloosen', {'op': 'seek_read', 'c': M[0], 'prog': 1}, ['zipped'])
    # packing ----------------------------------------------------------------------------------------------
    for comp in ('no', 'yes', 'auto'):
        for clpp in (False, True):
            add(f'pack_all_loose:{comp}:clpp={int(clpp)}', pack(comp, clpp), ['mixed', 'loose'],
                quick=(comp, clpp) in (('no', False), ('yes', True), ('auto', True)))
            add(f'pack_all_loose:{comp}:clpp={int(clpp)}:multipack', pack(comp, clpp), ['mixed', 'loose'], target=500,
                quick=(comp, clpp) in (('no', True), ('yes', False)))
    add('pack_all_loose:no:clpp=0:small-objects', pack('no', False), ['small'])
    add('pack_all_loose:yes:clpp=1:small-objects', pack('yes', True), ['small'])
    add('pack_all_loose:novalidate', pack('no', True, validate=False), ['loose', 'mixed'], quick=False)
    add('pack_all_loose:callback', pack('yes', False, callback=True), ['loose'], quick=False)
    add('pack_all_loose:no-fsync', pack('no', True, do_fsync=False), ['small', 'loose'], fsync_default=False)
    add('pack_all_loose:sha1', pack('yes', True), ['mixed'], hash_type='sha1', target=500, quick=False)
    # cleaning ---------------------------------------------------------------------------------------------
    add('clean_storage', {'op': 'clean_storage', 'vacuum': False}, ['mixed'])
    add('clean_storage:vacuum', {'op': 'clean_storage', 'vacuum': True}, ['mixed'])
    # direct to pack ---------------------------------------------------------------------------------------
    batch = [NEW[0], A[1], NEW[1], NEW[0], B[0], NEW[2]]  # new, known(packed in mixed), new, dup-in-batch, known, new
    for compress in (False, True):
        for flags, fname in (({}, 'plain'), ({'no_holes': True, 'read_twice': True}, 'nh2'),
                             ({'no_holes': True, 'read_twice': False}, 'nh1')):
            add(f'add_objects_to_pack:z={int(compress)}:{fname}',
                {'op': 'add_objects_to_pack', 'cs': batch, 'compress': compress, **flags}, ['mixed', 'empty', 'plain'],
                quick=(compress, fname) in ((False, 'plain'), (True, 'nh1'), (False, 'nh2')))
            add(f'add_objects_to_pack:z={int(compress)}:{fname}:multipack',
                {'op': 'add_objects_to_pack', 'cs': batch, 'compress': compress, **flags}, ['mixed', 'plain'], target=500,
                quick=(compress, fname) in ((True, 'plain'), (False, 'nh1')))
    add('add_objects_to_pack:no-fsync', {'op': 'add_objects_to_pack', 'cs': [NEW[0], NEW[1], B[0], A[0]], 'do_fsync': False}, ['mixed', 'empty'],
        fsync_default=False)
    add('add_streamed_objects_to_pack:lazy', {'op': 'add_streamed_objects_to_pack', 'cs': batch, 'streams': 'lazy',
                                               'no_holes': True, 'read_twice': True}, ['mixed'], quick=False)
    add('add_streamed_object_to_pack:big', {'op': 'add_streamed_object_to_pack', 'c': NEWM, 'compress': True,
                                            'callback': True}, ['mixed', 'empty'])
    # import -------------------------------------------------------------------------------------------------
    imp = {'op': 'import', 'src_cs': NEW + [A[1], NEWM], 'req': NEW + [A[1], NEWM], 'absent': [['rnd', 5, 99]],
           'src_pack': 'yes', 'compress': False, 'iter': 'list', 'callback': False}
    add('import:same-hash:tmb-small', {**imp, 'src_cfg': cfg(GiB4, 'sha256'), 'tmb': 1200}, ['mixed', 'empty'])
    add('import:diff-hash:tmb-small', {**imp, 'src_cfg': cfg(GiB4, 'sha1'), 'tmb': 1200, 'compress': True}, ['mixed'])
    # several cache flushes AND a pack rollover between them: every pack written on the way must be durable before the single final commit
    imp_many = {**imp, 'src_cs': NEW + [A[1], NEWM] + B + [L], 'req': NEW + [A[1], NEWM] + B + [L]}
    add('import:same-hash:flushes+rollover', {**imp_many, 'src_cfg': cfg(GiB4, 'sha256'), 'tmb': 1100}, ['empty', 'mixed'], target=500)
    add('import:same-hash:tmb-huge', {**imp, 'src_cfg': cfg(GiB4, 'sha256'), 'tmb': 104857600}, ['mixed'], quick=False)
    add('import:diff-hash:multipack', {**imp, 'src_cfg': cfg(GiB4, 'sha1', 0), 'tmb': 5000}, ['mixed', 'plain'], target=500,
        quick=False)
    add('import:same-hash:no-fsync', {**imp, 'src_cfg': cfg(GiB4, 'sha256'), 'tmb': 1200, 'do_fsync': False}, ['mixed'],
        quick=False, fsync_default=False)
    # deletion ---------------------------------------------------------------------------------------------------
    add('delete:loose', {'op': 'delete', 'cs': [A[0], A[2]], 'absent': [['rnd', 5, 98]]}, ['loose'])
    add('delete:packed', {'op': 'delete', 'cs': [A[0], A[2]], 'absent': []}, ['plain', 'zipped'])
    add('delete:both-forms', {'op': 'delete', 'cs': [A[0], B[1], L], 'absent': []}, ['mixed'])
    # repack -------------------------------------------------------------------------------------------------------
    for mode in ('keep', 'yes', 'no', 'auto'):
        add(f'repack:{mode}', {'op': 'repack', 'mode': mode}, ['mixed', 'zipped'], repack=True, quick=mode in ('keep', 'yes'))
        add(f'repack:{mode}:multipack', {'op': 'repack', 'mode': mode}, ['mixed', 'plain'], target=500, repack=True,
            quick=mode in ('no',))
    add('repack:keep:holes', {'op': 'repack', 'mode': 'keep'}, ['plain-holes', 'zipped-holes'], repack=True)
    add('repack:auto:holes', {'op': 'repack', 'mode': 'auto'}, ['zipped-holes', 'plain-holes'], repack=True, quick=False)
    # a maintenance call that ends with VACUUM followed, on the SAME handle, by operations that write pack rows: the transaction state
    # left behind by the first must not change when the rows of the second become durable/visible
    add('repack-then-direct', [{'op': 'repack', 'mode': 'keep'}, {'op': 'add_objects_to_pack', 'cs': [NEW[0], NEW[1], A[0]], 'compress': False}],
        ['mixed', 'plain'], repack=True)
    add('repack-then-pack', [{'op': 'repack', 'mode': 'keep'}, pack('yes', True)], ['mixed'], quick=False, repack=True)
    add('vacuum-then-pack', [{'op': 'clean_storage', 'vacuum': True}, pack('yes', True)], ['mixed', 'loose'], quick=False)
    add('repack_pack:keep:after-delete', [{'op': 'delete', 'cs': [A[1]], 'absent': []}, {'op': 'repack_pack', 'mode': 'keep', 'pack': 0}],
        ['plain', 'mixed'], repack=True, quick=False)
    return out
